#!/usr/bin/env python3
"""Regenerates /verif/MANIFEST.json from the table below (single source for the interface)."""
import json, subprocess

RT_NOTE = ("Trusted base: TLC 1.8.0; the concretiser harness/internal/abs (abstract record -> JSON text, key by key); "
           "the Go toolchain and encoding/json/yaml.v3 as the execution environment of generated code; bounds as stated in the "
           "evidence file (small-scope). The reference semantics JV.Valid is three-valued: inputs the property does not speak about are never judged.")

CHECKS = {
 "C02": dict(design="7 C02", technique='TLC exhaustive case enumeration + replay into real generated code + TLC trace validation of observed verdicts and decoded values', text="C02's own units (declared properties + additionalProperties true/{}/typed x every subset of 4 extra keys incl. a Go field name, a case variant, the empty key; 5 string formats; integers beyond 2^53; nesting depth 3; definitions named Plain/Raw/Value/J) plus the units of the C03, C04, C08, C09 families and seeded samples of C05-C07 are generated, compiled and executed; TLC's trace spec checks for every document that is valid under the reference semantics that it is accepted, that the reflective dump of the destination holds every declared value in the field bound to that name (defaults for absent ones, exactly the undeclared keys in AdditionalProperties) and that the re-marshalled JSON reproduces every non-empty declared value."),
 "C03": dict(design="7 C03", technique='TLC exhaustive case enumeration + replay into real generated code + TLC trace validation of observed verdicts', text="TLC enumerates 14 typed position kinds x nullable x 7 contexts (required/optional property, array item depth 1/2, definition, nested property, typed additionalProperties value) with 21 JSON value shapes of every type at the position; the typed-decode model (spec/ObjImpl.tla) is checked against the reference and every unit is replayed on real generated code."),
 "C04": dict(design="7 C04", technique='TLC exhaustive case enumeration + replay into real generated code + TLC trace validation of observed verdicts', text="TLC enumerates every subset of {a,b,c,n,zz} as `required` of an object with a nullable, a defaulted, a nested-object and an undeclared name, in 9 container contexts (root, property, array item, definition, items of an array definition, 3 allOf shapes, anyOf) with every assignment of absent/present/null to the keys; the struct/required/merge model (spec/ObjImpl.tla) is checked against the reference and every unit is replayed on real generated code."),
 "C05": dict(design="7 C05", technique='TLC exhaustive case enumeration + replay into real generated code + TLC trace validation of observed verdicts', text="TLC enumerates every combination of presence/kind/order of minimum, maximum, exclusiveMinimum, exclusiveMaximum (boolean and numeric form, integral and non-integral constants) and multipleOf for integer and number at 7 position kinds (68.6k units x 13-18 values), checks the implementation-shaped model of NormalizeBounds/genBoundary (spec/Bounds.tla) against the reference semantics on all of them, and the same units are replayed through the real generator, compiled and executed; TLC's trace specification judges every observed verdict. quick replays every bound combination at one seed-chosen position plus a 6% sample, thorough all units."),
 "C06": dict(design="7 C06", technique='TLC exhaustive case enumeration + replay into real generated code + TLC trace validation of observed verdicts', text="TLC enumerates minLength x maxLength x pattern (6 patterns incl. '%' and backslash escapes) x 7 positions and EVERY string over a 5-character alphabet with 1-4 byte characters up to length 3 (quick) / 4 (thorough); the string-validator model (spec/StrImpl.tla) is checked against the reference (code-point length) and all units are replayed on real generated code; byte-length and maxLength:0 behaviour are excused only where the deviation model predicts exactly the observed verdict."),
 "C07": dict(design="7 C07", technique='TLC exhaustive case enumeration + replay into real generated code + TLC trace validation of observed verdicts', text="TLC enumerates nesting depth 1..3 x per-level minItems/maxItems options x element kind x 7 positions with uniform and ragged nested-array documents; the model of the per-depth arrayValidator loop (spec/ArrImpl.tla) is checked against the reference and all units are replayed on real generated code. The unchanged tree violates C07 in four recorded ways (known findings); anything else is a violation."),
 "C08": dict(design="7 C08", technique='TLC exhaustive case enumeration + replay into real generated code + TLC trace validation of observed verdicts and decoded values', text="TLC enumerates every ordered list of up to 3 distinct atoms of {\"a\",\"b\u00e9% a\",1,2,1.5,true,false,null} conforming to the declared type (7 choices) x 5 uses (2.2k units) with all atoms and 4 non-members as documents; the carrier/DeepEqual model (spec/EnumImpl.tla) is checked against JSON equality; every unit is replayed on real generated code and TLC judges verdict, decoded and re-marshalled value, and the typed string constants read from the emitted source."),
 "C09": dict(design="7 C09", technique='TLC exhaustive case enumeration + replay into real generated code + TLC trace validation of observed verdicts and decoded values', text="TLC enumerates 22 property kinds x 2 defaults x required flag with the property absent / null / present-other / present-default; every unit is generated, compiled and executed; TLC judges the decoded value (default for absent or null, document value otherwise) and -- because the default literal must have the Go type of the field -- that the emitted package compiles. Seven ways in which the unchanged tree breaks this are recorded findings predicted per unit by the specification."),
 "C15": dict(design="7 C15", technique="TLC exhaustive case enumeration + replay of both flag settings into real generated code + TLC trace validation (verdicts and Go type read by reflection)", text="TLC enumerates integer schemas whose lower/upper side is absent | minimum | numeric exclusive | minimum + boolean exclusive at landmark+-1 around 0 and the 8/16-bit (quick) plus 32/64-bit (thorough) signed and unsigned limits, with the flag off and on (8.2k / 27k units), checks the model of getMinIntType and the in-place bound removal (spec/IntSize.tla) against the reference, and replays every unit: both programs must give the reference verdict on every landmark value (hence equal accepted sets) and the Go type of the field, read by reflection from the compiled program, must be a narrowest type holding the admitted interval."),
 "C17": dict(design="7 C17", technique="replay of TLC-enumerated units through UnmarshalJSON and UnmarshalYAML + TLC trace validation of pairwise agreement", text="Units of the C02, C04-C09 families are generated with --extra-imports; every in-scope document (valid, or only required/bound/length/pattern/enum faults) is decoded as JSON, as flow-style YAML and as block-style YAML; TLC judges that verdicts and reflective dumps agree, and excuses a difference only where the as-is model of the JSON path and of the YAML path (JSON-only and YAML-only deviations) predicts exactly the observed verdicts."),
 "C19": dict(design="7 C19", technique="TLC model checking of the Unmarshal step machine + TLC trace validation of observed call outcomes against its terminal states", text="spec/Unmarshal.tla models one call of a generated method as a step machine (raw decode, before-validators, typed decode into a local copy, after-validators, additional properties, assign); TLC checks Total, AllOrNothing (action property) and Terminates (liveness under fairness) for every configuration and emits the reachable terminal outcomes; ~190k (quick) calls of real generated UnmarshalJSON/UnmarshalYAML methods (all documents of the C02-C09 units, every JSON shape at the root, malformed bytes, zero and previously decoded destinations) are judged by TLC against that table."),
}

props = [json.loads(l) for l in open('/verif/properties.jsonl')]
checks = []
na = []
for p in props:
    i = p['id']
    if i in CHECKS:
        c = CHECKS[i]
        checks.append({
            "property_id": i,
            "quick_cmd": f"./bin/vcheck run {i} --tier quick",
            "thorough_cmd": f"./bin/vcheck run {i} --tier thorough",
            "evidence_file": f"evidence/{i}.json",
            "replay_cmd_template": f"./bin/vcheck replay {i} {{path}}",
            "engine": "vcheck",
            "level_claimed": {"category": "model_checking", "text": c["text"], "design_ref": "DESIGN.md section " + c["design"]},
            "level_note": c.get("note", RT_NOTE),
            "technique": c["technique"],
        })
    else:
        na.append({"property_id": i, "reason": "check not built yet (construction in progress; see DESIGN.md section 11 for the build order)"})

baseline = ("for m in . ./tests ./tests/helpers/other; do (cd /repo/$m && gw=$(go env GOWORK); "
            "if [ -z \"$gw\" ] || [ \"$gw\" = off ]; then MF=-mod=mod; else MF=; fi; "
            "GOPROXY=off GOTOOLCHAIN=local go test $MF -json -vet=off -count=1 -timeout 25m ./...); done")
m = {
 "version": 1,
 "setup_cmd": "./setup.sh",
 "hooks": {"guard": "verif",
           "enable": "-tags verif (reserved: no source hooks are needed so far; the library API (Config.Loader, Config.Warner, Sources()) and the process boundary expose the abstract state)",
           "baseline_off_cmd": baseline, "source_commits": [], "add_only": True},
 "engines": [{"name": "vcheck", "path": "bin/vcheck (built by setup.sh from harness/)", "serves_properties": sorted(CHECKS),
              "kind_free_text": "Go orchestrator: runs TLC on spec/MC_<prop>.tla (design-level invariants + case enumeration), drives the real generator built from /repo's working tree, compiles and executes the emitted code, and feeds the recorded observations to TLC trace specifications (spec/Trace_*.tla) that classify every event"}],
 "checks": checks,
 "notes": "Exit codes: 0 held (KNOWN-FINDING lines for open findings of known_findings.json), 1 with VIOLATION lines, 2 inconclusive (infrastructure). VERIF_SEED keys every sample. fix: commits in /repo: ee8f4ce 1f591fd dd6b0de (see known_findings.json 'fixed' entries).",
 "not_applicable": na,
}
json.dump(m, open('/verif/MANIFEST.json', 'w'), indent=1)
print("checks:", [c["property_id"] for c in checks], "not yet:", len(na))
