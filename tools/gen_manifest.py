#!/usr/bin/env python3
"""Regenerates /verif/MANIFEST.json from the table below (single source for the interface)."""
import json, subprocess

RT_NOTE = ("Trusted base: TLC 1.8.0; the concretiser harness/internal/abs (abstract record -> JSON text, key by key); "
           "the Go toolchain and encoding/json/yaml.v3 as the execution environment of generated code; bounds as stated in the "
           "evidence file (small-scope). The reference semantics JV.Valid is three-valued: inputs the property does not speak about are never judged.")

CHECKS = {
 "C05": dict(design="7 C05", text="TLC enumerates every combination of presence/kind/order of minimum, maximum, exclusiveMinimum, exclusiveMaximum (boolean and numeric form) and multipleOf for integer and number at 7 position kinds (68.6k units x 13-17 values), checks the implementation-shaped model of NormalizeBounds/genBoundary (spec/Bounds.tla) against the reference semantics on all of them, and the same units are replayed through the real generator, compiled and executed; TLC's trace specification judges every observed verdict. quick replays every bound combination at one seed-chosen position plus a 6% sample, thorough all units.",
             technique="TLC exhaustive case enumeration + replay into real generated code + TLC trace validation of observed verdicts"),
 "C06": dict(design="7 C06", text="TLC enumerates minLength x maxLength x pattern (6 patterns incl. '%' and backslash escapes) x 7 positions and EVERY string over a 5-character alphabet with 1-4 byte characters up to length 3 (quick) / 4 (thorough); the string-validator model (spec/StrImpl.tla) is checked against the reference (code-point length) and all units are replayed on real generated code; byte-length and maxLength:0 behaviour are excused only where the deviation model predicts exactly the observed verdict.",
             technique="TLC exhaustive case enumeration + replay into real generated code + TLC trace validation of observed verdicts"),
 "C07": dict(design="7 C07", text="TLC enumerates nesting depth 1..3 x per-level minItems/maxItems options x element kind x 7 positions with uniform and ragged nested-array documents; the model of the per-depth arrayValidator loop (spec/ArrImpl.tla) is checked against the reference and all units are replayed on real generated code. The unchanged tree violates C07 in four recorded ways (known findings); anything else is a violation.",
             technique="TLC exhaustive case enumeration + replay into real generated code + TLC trace validation of observed verdicts"),
}

props = [json.loads(l) for l in open('/verif/properties.jsonl')]
checks = []
na = []
for p in props:
    i = p['id']
    if i in CHECKS:
        c = CHECKS[i]
        checks.append({
            "property_id": i,
            "quick_cmd": f"./bin/vcheck run {i} --tier quick",
            "thorough_cmd": f"./bin/vcheck run {i} --tier thorough",
            "evidence_file": f"evidence/{i}.json",
            "replay_cmd_template": f"./bin/vcheck replay {i} {{path}}",
            "engine": "vcheck",
            "level_claimed": {"category": "model_checking", "text": c["text"], "design_ref": "DESIGN.md section " + c["design"]},
            "level_note": c.get("note", RT_NOTE),
            "technique": c["technique"],
        })
    else:
        na.append({"property_id": i, "reason": "check not built yet (construction in progress; see DESIGN.md section 11 for the build order)"})

baseline = ("for m in . ./tests ./tests/helpers/other; do (cd /repo/$m && gw=$(go env GOWORK); "
            "if [ -z \"$gw\" ] || [ \"$gw\" = off ]; then MF=-mod=mod; else MF=; fi; "
            "GOPROXY=off GOTOOLCHAIN=local go test $MF -json -vet=off -count=1 -timeout 25m ./...); done")
m = {
 "version": 1,
 "setup_cmd": "./setup.sh",
 "hooks": {"guard": "verif",
           "enable": "-tags verif (reserved: no source hooks are needed so far; the library API (Config.Loader, Config.Warner, Sources()) and the process boundary expose the abstract state)",
           "baseline_off_cmd": baseline, "source_commits": [], "add_only": True},
 "engines": [{"name": "vcheck", "path": "bin/vcheck (built by setup.sh from harness/)", "serves_properties": sorted(CHECKS),
              "kind_free_text": "Go orchestrator: runs TLC on spec/MC_<prop>.tla (design-level invariants + case enumeration), drives the real generator built from /repo's working tree, compiles and executes the emitted code, and feeds the recorded observations to TLC trace specifications (spec/Trace_*.tla) that classify every event"}],
 "checks": checks,
 "notes": "Exit codes: 0 held (KNOWN-FINDING lines for open findings of known_findings.json), 1 with VIOLATION lines, 2 inconclusive (infrastructure). VERIF_SEED keys every sample. fix: commits in /repo: ee8f4ce 1f591fd dd6b0de (see known_findings.json 'fixed' entries).",
 "not_applicable": na,
}
json.dump(m, open('/verif/MANIFEST.json', 'w'), indent=1)
print("checks:", [c["property_id"] for c in checks], "not yet:", len(na))
