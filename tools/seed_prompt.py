#!/usr/bin/env python3
"""Print the sub-agent prompt for seeding a property-breaking change (development aid only)."""
import json, sys
pid = sys.argv[1]
n = sys.argv[2] if len(sys.argv) > 2 else "2"
for l in open('/verif/properties.jsonl'):
    p = json.loads(l)
    if p['id'] == pid:
        break
else:
    sys.exit("no such property")
print(f"""You are helping to evaluate a verification framework by seeding realistic defects into a Go project.

Project: omissis/go-jsonschema (module path github.com/atombender/go-jsonschema), a CLI code generator that turns JSON Schema documents into Go structs plus generated JSON/YAML unmarshal methods that enforce the schema's validation rules. You have your own scratch git worktree of it at /tmp/wt-{pid} . Work ONLY inside /tmp/wt-{pid} and /tmp/seed-{pid} (create the latter). Never read or touch /repo or /verif.

The property that must be broken:

  {p['id']} - {p['title']}
  Statement: {p['statement']}
  Quantified over: {p['quantifier']['text']}

Task: produce {n} DIFFERENT changes (different mechanisms / code sites) to the project's non-test source (generator, codegen, schemas, mathutils, main.go, templates inside the Go source ...) such that each change, applied alone to a clean worktree:
  1. still compiles (go build ./...),
  2. still passes the ENTIRE existing test suite, unedited (golden files under tests/data must not be touched). Run it like this (offline sandbox, no network):
       export GOPROXY=off GOTOOLCHAIN=local GOSUMDB=off
       (cd /tmp/wt-{pid} && go build ./... && go test -vet=off -count=1 ./...)
       (cd /tmp/wt-{pid}/tests && go test -vet=off -count=1 ./...)
       (cd /tmp/wt-{pid}/tests/helpers/other && GOWORK=off GOFLAGS=-mod=mod go test -vet=off -count=1 ./...)
  3. breaks the property above, but only under something SPECIFIC: an unusual input or combination of schema features/options, a multi-step sequence, a particular ordering, two cooperating code sites that each look fine alone, a boundary value, etc. Not something ordinary use or the golden tests would expose at once. Think of the kind of subtle regression a real maintainer could introduce in a refactoring or "small improvement".
  4. comes with a demonstration that FAILS with the change and PASSES on the clean tree: a small self-contained shell script demo.sh that takes the path of a go-jsonschema source tree as $1, builds the CLI from it (go build -o <tmp>/gjs $1), generates code for a schema, and (where the property is about runtime behaviour of generated code) compiles and runs a tiny Go program against the generated code, exiting 0 when the property holds and 1 when it is violated. For building generated code use a temp module with `replace github.com/atombender/go-jsonschema => $1` and env GOFLAGS=-mod=mod GOWORK=off GOPROXY=off; copy go.sum lines from $1/go.sum and $1/tests/go.sum (the module cache already holds yaml.v3 and github.com/go-viper/mapstructure/v2 v2.1.0; nothing can be downloaded).

Important: the clean tree itself already has some imperfections. Make sure your demo passes on the clean tree (git stash / a second clean worktree is fine: `git -C /tmp/wt-{pid} stash` then unstash) and fails with your change, i.e. it isolates YOUR change.

Deliverables, for k = 1..{n}, in /tmp/seed-{pid}/k/ :
  - patch.diff   (git diff of the worktree against HEAD, applies with `git apply` to a clean tree; only non-test source files)
  - demo.sh      (as described; executable)
  - notes.md     (3-10 lines: what the change is, which clause of the property it breaks, exactly what is needed for it to manifest, and the output of the test suite + demo on clean and changed trees)
Leave the worktree clean (git checkout -- . ; no untracked files) when you finish. Clean up temp build dirs you created. Finally reply with a short summary of the {n} changes.""")
