#!/bin/bash
# Development aid: generate code for one schema with the real CLI and decode documents with it.
#   tools/probe.sh <schema.json|yaml> "<cli flags>" <doc>...        (REPO=<tree>, default /repo; SHOW=1 prints the code)
set -u
SRC=$(cd "${REPO:-/repo}" && pwd); S="$1"; FLAGS="$2"; shift 2
export GOPROXY=off GOTOOLCHAIN=local GOSUMDB=off
W=$(mktemp -d /tmp/probe-XXXXXX); trap 'rm -rf "$W"' EXIT
(cd "$SRC" && go build -o "$W/gjs" .) || exit 2
ext="${S##*.}"; cp "$S" "$W/root.$ext"; mkdir -p "$W/m/g"
(cd "$W" && ./gjs -p g $FLAGS -o "$W/m/g/schema.go" "root.$ext") || { echo "generation failed"; exit 3; }
[ -n "${SHOW:-}" ] && cat "$W/m/g/schema.go"
printf 'module demo\n\ngo 1.22\n\nrequire github.com/atombender/go-jsonschema v0.0.0\n\nreplace github.com/atombender/go-jsonschema => %s\n' "$SRC" > "$W/m/go.mod"
cat "$SRC/go.sum" "$SRC/tests/go.sum" | sort -u > "$W/m/go.sum"
RT=$(grep -o "^type Root[A-Za-z]* " "$W/m/g/schema.go" | head -1 | awk '{print $2}'); RT=${RT:-Root${ext^}}
cat > "$W/m/main.go" <<EOS
package main
import ("encoding/json";"fmt";"os";"demo/g")
func main(){ for _,d:=range os.Args[1:] { var v g.$RT; err:=json.Unmarshal([]byte(d),&v); b,_:=json.Marshal(v); fmt.Printf("%-40s err=%v  out=%s\n", d, err, b) } }
EOS
(cd "$W/m" && GOFLAGS=-mod=mod GOWORK=off go build -o "$W/demo" . ) || { echo "generated code does not build"; exit 4; }
"$W/demo" "$@"
