#!/bin/sh
# Development aid: run every registered check of a tier (default quick) and print one line each.
TIER="${1:-quick}"; shift
cd "${VERIF_HOME:-/verif}"
IDS="${*:-$(python3 -c "import json;print(' '.join(c['property_id'] for c in json.load(open('MANIFEST.json'))['checks']))")}"
for id in $IDS; do
  s=$(date +%s); out=$(./bin/vcheck run $id --tier $TIER 2>&1); rc=$?; e=$(( $(date +%s) - s ))
  echo "$id rc=$rc ${e}s $(echo "$out" | grep -c '^VIOLATION') violations, $(echo "$out" | grep -c '^KNOWN-FINDING') known-finding lines | $(echo "$out" | grep -v '^KNOWN\|^VIOLATION' | tail -1 | cut -c1-220)"
done
