#!/usr/bin/env python3
"""Regenerates the generated sections of DESIGN.md (14: findings, 15: seeded changes) from
known_findings.json and seeded/*/meta.json."""
import json, glob, os, re

def esc(t): return str(t).replace('|', '\\|').replace('\n', ' ')

d = json.load(open('/verif/known_findings.json'))
fixed = [f for f in d['findings'] if f['status'] == 'fixed']
openf = [f for f in d['findings'] if f['status'] == 'open']
out = []
out.append(f"{len(fixed)} genuine defects were repaired in `/repo` (one unguarded `fix:` commit each; the pinned suite, unedited, stays at 204/204 after every one), "
           f"{len(openf)} are recorded as open findings (their wrong output is pinned by a golden, or the repair is a redesign). "
           "Each open finding is a deviation switch in the specification: a check excuses an observation only when the as-is model with the switch predicts exactly that observation on that input; "
           "every check prints one `KNOWN-FINDING:` line per open finding of its property.\n")
out.append("### 14.1 Repaired (`fix:` commits)\n")
out.append("| finding | properties | what failed | commit |\n|---|---|---|---|")
for f in fixed:
    m = re.search(r'property=\S+ (\w{7})', f.get('fixed', ''))
    out.append(f"| {f['id']} | {', '.join(f['properties'])} | {esc(f['what'])} | `{m.group(1) if m else '?'}` |")
out.append("\n### 14.2 Open (known findings)\n")
out.append("| finding | properties | deviation switch | site | what fails |\n|---|---|---|---|---|")
for f in openf:
    why = f" *Why not repaired:* {esc(f['why_open'])}" if f.get('why_open') else ''
    out.append(f"| {f['id']} | {', '.join(f['properties'])} | `{f['deviation']}` | {esc(f['site'])} | {esc(f['what'])}{why} |")
findings = "\n".join(out) + "\n"

rows = []
for mp in sorted(glob.glob('/verif/seeded/*/meta.json')):
    m = json.load(open(mp))
    sid = m['id']
    notes = ''
    np_ = os.path.join(os.path.dirname(mp), 'notes.md')
    if os.path.exists(np_):
        for l in open(np_):
            l = l.strip()
            if l.startswith('#'):
                notes = l.lstrip('# ').strip()
                break
    runs = m.get('check_runs', {})
    det = [k for k, v in runs.items() if v.get('exit') == 1]
    miss = [k for k, v in runs.items() if v.get('exit') == 0]
    other = [f"{k}: exit {v.get('exit')}" for k, v in runs.items() if v.get('exit') not in (0, 1)]
    rows.append(f"| {sid} | {m['breaks_property']} | {esc(notes)[:150]} | {', '.join(det) or '-'} | {', '.join(miss + other) or '-'} |")
nd = sum(1 for r in rows if '| - | ' not in r.split('|', 4)[4][:6]) if rows else 0
seeds = ("Each seeded change was written by a fresh sub-agent that saw only the text of one property and a scratch worktree, was confirmed with `tools/confirm_seed.sh` "
         "(builds, pinned suite green, its demonstration passes on the clean tree and fails with the change) and is kept under `seeded/<id>/` (patch.diff, demo.sh, notes.md, meta.json). "
         "`tools/seed_matrix.sh` applies each one in a scratch worktree and runs checks against it (`VERIF_REPO`); exit 1 = caught.\n\n"
         "| seed | breaks | change (from its notes) | caught by (check/tier) | run without alarm |\n|---|---|---|---|---|\n" + "\n".join(rows) + "\n")

p = '/verif/DESIGN.md'
s = open(p).read()
s = re.sub(r'<!-- BEGIN findings -->.*?<!-- END findings -->', lambda _: '<!-- BEGIN findings -->\n' + findings + '<!-- END findings -->', s, flags=re.S)
s = re.sub(r'<!-- BEGIN seeds -->.*?<!-- END seeds -->', lambda _: '<!-- BEGIN seeds -->\n' + seeds + '<!-- END seeds -->', s, flags=re.S)
open(p, 'w').write(s)
print("findings:", len(fixed), "fixed,", len(openf), "open; seeds:", len(rows))
