#!/bin/sh
# Development aid: run the owning property's check against every seeded change (scratch worktree) and record
# the outcome in seeded/<id>/meta.json (detected_by) and seeded/MATRIX.md.
#   tools/seed_matrix.sh [tier] [seed ids...]
TIER="${1:-quick}"; [ $# -gt 0 ] && shift
cd /verif
IDS="${*:-$(ls seeded | grep -v MATRIX)}"
mkdir -p /tmp/matrix
for id in $IDS; do
  prop=$(python3 -c "import json;print(json.load(open('seeded/$id/meta.json'))['breaks_property'])")
  s=$(date +%s)
  /verif/tools/try_patch.sh /verif/seeded/$id/patch.diff $prop $TIER > /tmp/matrix/$id.log 2>&1
  rc=$(grep -o 'exit=[0-9]*' /tmp/matrix/$id.log | tail -1 | cut -d= -f2)
  e=$(( $(date +%s) - s ))
  nv=$(grep -c '^VIOLATION' /tmp/matrix/$id.log)
  echo "$id prop=$prop tier=$TIER rc=$rc violations=$nv ${e}s"
  python3 - "$id" "$prop" "$TIER" "$rc" "$nv" <<'P'
import json,sys
id,prop,tier,rc,nv=sys.argv[1:6]
p=f'/verif/seeded/{id}/meta.json'
m=json.load(open(p))
runs=m.get('check_runs',{})
runs[f'{prop}/{tier}']={'exit':int(rc) if rc else None,'violation_lines':int(nv)}
m['check_runs']=runs
det=[k for k,v in runs.items() if v['exit']==1]
m['detected_by']=det if det else None
json.dump(m,open(p,'w'),indent=1)
P
done
