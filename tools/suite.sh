#!/bin/sh
# Development aid: run the pinned suite (modules ., ./tests, ./tests/helpers/other) in a tree and print pass/fail counts.
#   tools/suite.sh <tree>
T="${1:-/repo}"
export GOPROXY=off GOTOOLCHAIN=local GOSUMDB=off
P=0; F=0
for m in . ./tests ./tests/helpers/other; do
  out=$(cd "$T/$m" && gw=$(go env GOWORK); if [ -z "$gw" ] || [ "$gw" = off ]; then MF=-mod=mod; else MF=; fi; go test $MF -json -vet=off -count=1 -timeout 25m ./... 2>&1)
  p=$(echo "$out" | grep -c '"Action":"pass","Package":"[^"]*","Test"'); f=$(echo "$out" | grep -c '"Action":"fail"')
  P=$((P+p)); F=$((F+f))
  [ "$f" != 0 ] && echo "$out" | grep '"Action":"fail"' | head -5
done
echo "suite: pass=$P fail=$F"
