#!/bin/sh
# Development aid: run a check against a scratch worktree of /repo with a patch applied.
#   tools/try_patch.sh <patch.diff|-R:commit> <PROP> [tier]
# The registered checks always run against /repo itself; this only sets VERIF_REPO for one run.
set -e
P="$1"; PROP="$2"; TIER="${3:-quick}"
WT=$(mktemp -d /tmp/mw-XXXXXX)
git -C /repo worktree add -q --detach "$WT" HEAD
trap 'git -C /repo worktree remove --force "$WT" 2>/dev/null; rm -rf "$WT"' EXIT
case "$P" in
  -R:*) (cd "$WT" && git revert --no-commit "${P#-R:}" >/dev/null) ;;
  *) git -C "$WT" apply "$P" 2>/dev/null || git -C "$WT" apply --3way "$P" ;;
esac
H="${VERIF_RUN_HOME:-/verif}"   # a copy of /verif to run from (so that /verif can be edited meanwhile)
cd "$H"
set +e
VERIF_REPO="$WT" VERIF_HOME="$H" VERIF_EVIDENCE_DIR="$WT/.evidence" ./bin/vcheck run "$PROP" --tier "$TIER"
echo "exit=$?"
