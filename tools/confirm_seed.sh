#!/bin/sh
# Development aid: confirm a seeded change (patch.diff + demo.sh) in a scratch worktree:
# builds, passes the pinned suite, demo passes on the clean tree and fails with the change.
#   tools/confirm_seed.sh <dir with patch.diff demo.sh> ; prints one summary line
D="$1"
export GOPROXY=off GOTOOLCHAIN=local GOSUMDB=off
WT=$(mktemp -d /tmp/cs-XXXXXX); CL=$(mktemp -d /tmp/cc-XXXXXX)
git -C /repo worktree add -q --detach "$WT" HEAD; git -C /repo worktree add -q --detach "$CL" HEAD
trap 'git -C /repo worktree remove --force "$WT"; git -C /repo worktree remove --force "$CL"; rm -rf "$WT" "$CL"' EXIT
git -C "$WT" apply "$D/patch.diff" || { echo "SEED $D: patch does not apply"; exit 1; }
B=ok; (cd "$WT" && go build ./... ) >/dev/null 2>&1 || B=FAIL
T=ok
(cd "$WT" && go test -vet=off -count=1 ./... ) >/dev/null 2>&1 || T=FAIL
(cd "$WT/tests" && go test -vet=off -count=1 ./... ) >/dev/null 2>&1 || T=FAIL
(cd "$WT/tests/helpers/other" && GOWORK=off GOFLAGS=-mod=mod go test -vet=off -count=1 ./... ) >/dev/null 2>&1 || T=FAIL
bash "$D/demo.sh" "$CL" >/dev/null 2>&1; DC=$?
bash "$D/demo.sh" "$WT" >/dev/null 2>&1; DP=$?
echo "SEED $D: build=$B tests=$T demo_clean_exit=$DC demo_patched_exit=$DP"
