#!/bin/sh
# Development aid: adopt a sub-agent's seed /tmp/seed-<PROP>/<k> as /verif/seeded/<newid> after confirming it.
#   tools/adopt_seed.sh <PROP> <k> <newid>
P="$1"; K="$2"; ID="$3"
SRC=/tmp/seed-$P/$K; DST=/verif/seeded/$ID
[ -f "$SRC/patch.diff" ] || { echo "no $SRC/patch.diff"; exit 1; }
mkdir -p "$DST"; cp "$SRC/patch.diff" "$SRC/demo.sh" "$SRC/notes.md" "$DST/" 2>/dev/null
chmod +x "$DST/demo.sh"
line=$(/verif/tools/confirm_seed.sh "$DST" 2>&1 | tail -1)
echo "$line"
python3 - "$ID" "$P" "$line" <<'PY'
import json,sys,re,subprocess
id,prop,line=sys.argv[1:4]
m=re.search(r'build=(\w+) tests=(\w+) demo_clean_exit=(\d+) demo_patched_exit=(\d+)', line)
head=subprocess.run(['git','-C','/repo','rev-parse','--short','HEAD'],capture_output=True,text=True).stdout.strip()
meta={"id":id,"breaks_property":prop,"origin":"independent sub-agent given only the property text and a scratch worktree",
      "needs_to_manifest":"see notes.md",
      "confirmed":{"by":f"tools/confirm_seed.sh in scratch worktrees at /repo HEAD {head}","build":m.group(1) if m else "?","pinned_suite":(m.group(2) if m else "?")+" (., ./tests, ./tests/helpers/other)",
                   "demo_on_clean_tree_exit":int(m.group(3)) if m else None,"demo_on_patched_tree_exit":int(m.group(4)) if m else None},
      "detected_by":None}
json.dump(meta,open(f'/verif/seeded/{id}/meta.json','w'),indent=1)
ok = m and m.group(1)=='ok' and m.group(2)=='ok' and m.group(3)=='0' and m.group(4)!='0'
print("ADOPTED" if ok else "NOT CONFIRMED", id)
PY
