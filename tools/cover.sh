#!/bin/sh
# Development aid: statement coverage of /repo's non-test code reached by the checks.
#   tools/cover.sh <outdir> [tier] [ids...]   -> <outdir>/cov.txt, <outdir>/func.txt, <outdir>/uncovered.txt
# Limitation (measured): Go 1.23 instruments with -coverpkg only packages of the main module / workspace it builds in,
# so only the CLI binary (built inside /repo; used by C12, C18, C20 and the CLI legs of others) reports counters; the
# in-process generator driver (built in a scratch module that `replace`s /repo) writes none. The result is a lower bound.
# Runs from a private copy of /verif (bin/ rebuilt there is not needed: vcheck reads VERIF_COVER at run time).
OUT="$1"; TIER="${2:-quick}"; shift; shift
mkdir -p "$OUT/raw"
export VERIF_COVER=1 GOCOVERDIR="$OUT/raw" VERIF_EVIDENCE_DIR="$OUT/evidence"
cd "${VERIF_HOME:-/verif}"
IDS="${*:-C01 C02 C03 C04 C05 C06 C07 C08 C09 C10 C11 C12 C13 C14 C15 C16 C17 C18 C19 C20}"
for id in $IDS; do
  ./bin/vcheck run $id --tier $TIER > "$OUT/$id.log" 2>&1; echo "$id rc=$?"
done
(cd /repo && GOTOOLCHAIN=local go tool covdata textfmt -i="$OUT/raw" -o "$OUT/cov.txt" && go tool cover -func="$OUT/cov.txt" > "$OUT/func.txt")
python3 - "$OUT/cov.txt" > "$OUT/uncovered.txt" <<'P'
import sys,collections
un=collections.defaultdict(list)
for l in open(sys.argv[1]):
    if l.startswith('mode:'): continue
    loc,n,c=l.rsplit(' ',2)
    if int(c)==0:
        f,r=loc.split(':'); un[f].append(r)
for f in sorted(un):
    if '/tests/' in f: continue
    print(f, len(un[f]))
    for r in sorted(un[f], key=lambda r:[int(x) for x in r.replace(',','.').split('.')]): print('   ',r)
P
tail -1 "$OUT/func.txt"
