// vcheck: entry point of the verification machinery. `vcheck run <PROP> --tier quick|thorough`,
// `vcheck replay <PROP> <file>`.
package main

import (
	"fmt"
	"os"
	"runtime/debug"

	"verif/harness/internal/props"
	"verif/harness/internal/work"
)

func main() {
	// the harness holds large, long-lived tables (units, outputs); collect eagerly rather than let the heap double
	debug.SetGCPercent(40)
	if len(os.Args) < 3 {
		fmt.Fprintln(os.Stderr, "usage: vcheck run <PROP> [--tier quick|thorough] | vcheck replay <PROP> <file>")
		os.Exit(2)
	}
	tier := os.Getenv("VERIF_TIER")
	for i, a := range os.Args {
		if a == "--tier" && i+1 < len(os.Args) {
			tier = os.Args[i+1]
		}
	}
	if tier == "" {
		tier = "quick"
	}
	switch os.Args[1] {
	case "warm": // vcheck warm <dir>: build the base Go build cache (called by setup.sh)
		if err := work.WarmBase(os.Args[2]); err != nil {
			fmt.Fprintln(os.Stderr, err)
			os.Exit(2)
		}
		os.Exit(0)
	case "run":
		os.Exit(props.Run(os.Args[2], tier))
	case "selftest":
		os.Exit(props.SelfTest(os.Args[2], tier))
	case "replay":
		if len(os.Args) < 4 {
			fmt.Fprintln(os.Stderr, "usage: vcheck replay <PROP> <file>")
			os.Exit(2)
		}
		os.Exit(props.Replay(os.Args[2], os.Args[3]))
	}
	fmt.Fprintln(os.Stderr, "unknown command", os.Args[1])
	os.Exit(2)
}
