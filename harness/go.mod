module verif/harness

go 1.23.0

require pgregory.net/rapid v1.3.0
