module verif/harness

go 1.23.0

require pgregory.net/rapid v1.3.0

require gopkg.in/yaml.v3 v3.0.1
