// Package props registers one check per property.
package props

import (
	"fmt"
	"math/rand"
	"os"

	"verif/harness/internal/rt"
)

var families = map[string]*rt.Family{}

func sample(units []*rt.Unit, rng *rand.Rand, keep func(*rt.Unit) bool, frac float64) []*rt.Unit {
	var out []*rt.Unit
	for _, u := range units {
		if k, _ := u.Raw["keep"].(bool); k || keep(u) || rng.Float64() < frac {
			out = append(out, u)
		}
	}
	return out
}

func init() {
	families["C05"] = &rt.Family{Prop: "C05", JudgeBuild: true, Module: "MC_C05", PackSize: 8,
		// same-named types (of two documents, or of one document) that differ only in their bounds
		More: []rt.Extra{{Module: "MC_C10", ExtraCfg: tierCfg, Keep: func(u *rt.Unit) bool {
			k := u.Str("kind")
			return twoDocs(u) && (k == "int" || k == "int2" || k == "num" || k == "nummult")
		}},
			// integer bounds next to zero generated with --min-sized-ints (unsigned fields): the bounds must be
			// enforced exactly whatever type carries the value
			{Module: "MC_C15", ExtraCfg: tierCfg, Frac: frac(0.35, 1), Keep: func(u *rt.Unit) bool {
				if !u.Opts().MinSizedInts {
					return false
				}
				leaf := fmt.Sprint(u.Raw["schema"])
				return containsStr(leaf, "minimum:map[e:0") || containsStr(leaf, "exclusiveMinimum:map[h:map[e:0")
			}}},
		Unbounded: []rt.ApaCheck{
			{Module: "BoundsInd", Inv: "Agree", Expect: "NoError", What: "for ALL integers: the transcribed NormalizeBounds + genBoundary accept x iff x satisfies every stated bound"},
			{Module: "BoundsInd", Inv: "AgreeTie", Expect: "Error", What: "the comparison before fix ee8f4ce (> / < instead of >= / <=) disagrees on a tie: the deviation switch is necessary"},
			{Module: "BoundsFracInd", Inv: "AgreeRound", Expect: "NoError", What: "for ALL quarter-valued (fractional) constants on an integer field and all integers x: rounding the bound into the range and comparing inclusively accepts x iff x satisfies every stated bound"},
			{Module: "BoundsFracInd", Inv: "AgreeTrunc", Expect: "Error", What: "int64(bound) as before fix a9f0e7c (truncation toward zero, exclusiveness kept) disagrees: the deviation switch is necessary"},
		},
		Rule: "units = every combination of minimum/maximum (absent or one of 4 constants), exclusiveMinimum/exclusiveMaximum (absent, true, false or one of 4 constants), multipleOf (absent or 3 values), integer|number, 6 positions; documents = every half step from below the smallest to above the largest constant, absent, null. distinct_nontrivial = distinct (unit, document) pairs with a definite reference verdict",
		Select: func(units []*rt.Unit, tier string, rng *rand.Rand) []*rt.Unit {
			if tier == "thorough" {
				return units
			}
			// quick: every bound combination at one seed-chosen position per type, 6% elsewhere
			positions := []string{"req", "opt", "nullopt", "nullreq", "defreq", "defopt", "optdefault"}
			pos := positions[rng.Intn(len(positions))]
			return sample(units, rng, func(u *rt.Unit) bool { return u.Str("pos") == pos && !hasMult(u) }, 0.06)
		}}
}

func init() {
	families["C06"] = &rt.Family{Prop: "C06", JudgeBuild: true, Module: "MC_C06", PackSize: 8,
		// same-named types (of two documents, or of one document) that differ only in their string constraints
		More: []rt.Extra{{Module: "MC_C10", ExtraCfg: tierCfg, Keep: func(u *rt.Unit) bool {
			k := u.Str("kind")
			return twoDocs(u) && (k == "str" || k == "str2")
		}}},
		Rule: "units = minLength {absent,0,1,2} x maxLength {absent,0,1,2,3} x pattern {absent + 4 patterns} x 7 positions; documents = every string over a 5-character alphabet (1,1,2,3,4 UTF-8 bytes) up to length 3 (quick) / 4 (thorough), absent, null. distinct_nontrivial = distinct (unit, document) pairs with a definite reference verdict",
		ExtraCfg: func(tier string) string {
			if tier == "thorough" {
				return "  MaxStr = 4\n"
			}
			return "  MaxStr = 3\n"
		}}
}

func init() {
	families["C07"] = &rt.Family{Prop: "C07", JudgeBuild: true, Module: "MC_C07", PackSize: 8,
		// same-named types of two documents (or of one document) that differ only in the limits of an array property
		More: []rt.Extra{{Module: "MC_C10", ExtraCfg: tierCfg, Keep: func(u *rt.Unit) bool {
			k := u.Str("kind")
			return twoDocs(u) && (k == "arr" || k == "arr2")
		}}},
		Rule:     "units = nesting depth 1..3 x per-level limit option (9 options incl. maxItems 0; 4 at depth 3 in the quick tier) x element kind (integer | object with required key) x 6 positions; documents = uniform nested arrays for every vector of per-level lengths 0..3, ragged arrays, one with an invalid element, absent, null. distinct_nontrivial = distinct (unit, document) pairs with a definite reference verdict",
		ExtraCfg: func(tier string) string { return "  Tier = \"" + tier + "\"\n" }}
}

// twoDocs keeps the C10 layouts in which two documents of one run write the same relative reference, declare
// same-named definitions or hold textually identical allOf branches with different targets (the form whose
// as-is behaviour needs Trace_C10's declaration-table model is left to C10).
func twoDocs(u *rt.Unit) bool {
	c, f := u.Str("ctx"), u.Str("form")
	return (c == "two" || c == "twoall" || c == "collide") && f != "samedef"
}

// twoDocsDefaults: the same layouts for the leaves that carry a default (C09 judges the decoded values)
func twoDocsDefaults(u *rt.Unit) bool {
	k := u.Str("kind")
	return twoDocs(u) && (k == "objdef" || k == "objdef2" || k == "oreqd" || k == "oreq")
}

var c10More = rt.Extra{Module: "MC_C10", ExtraCfg: tierCfg, Keep: twoDocs}

func init() {
	families["C04"] = &rt.Family{Prop: "C04", JudgeBuild: true, Module: "MC_C04", PackSize: 8, More: []rt.Extra{c10More},
		Rule: "units = every subset of {a,b,c,n,zz} as `required` of an object with properties a:integer, b:[string,null], c:integer with default, n:nested object with its own required key (zz undeclared) x 9 container contexts (root, property, array item, definition, items of an array definition, 3 allOf shapes incl. a required-only branch and a $ref branch, anyOf); documents = every assignment of absent/present/null to the keys (108 per unit, 180 for anyOf). distinct_nontrivial = distinct (unit, document) pairs with a definite reference verdict"}
}

func init() {
	families["C03"] = &rt.Family{Prop: "C03", JudgeBuild: true, Module: "MC_C03", PackSize: 8, More: []rt.Extra{c10More,
		// allOf lists in which two branches state the type of one property differently (string / [string, null])
		{Module: "MC_C11", Frac: frac(0.5, 1), Keep: func(u *rt.Unit) bool {
			t := fmt.Sprint(u.Raw["schema"], u.Raw["defs"])
			return u.Str("comb") == "allOf" && containsStr(t, "maxLength") && containsStr(t, "[string null]")
		}}},
		Rule: "units = 14 typed position kinds (string, integer, number, boolean, array of integer, object, 5 string formats, 3 non-string types carrying a string format) x nullable x 7 contexts (required/optional property, array item depth 1/2, definition, nested property, typed additionalProperties value); documents = 21 JSON value shapes of every type (null, booleans, integral and non-integral numbers, plain and format strings, arrays, objects) at the position. distinct_nontrivial = distinct (unit, document) pairs with a definite reference verdict"}
}

func init() {
	families["C15"] = &rt.Family{Prop: "C15", JudgeBuild: true, Module: "MC_C15", PackSize: 8,
		// integer enums generated with the flag: the accepted set must stay the listed values
		More: []rt.Extra{{Module: "MC_C08", Keep: func(u *rt.Unit) bool { return u.Opts().MinSizedInts }}},
		Unbounded: []rt.ApaCheck{
			{Module: "IntSizeInd", Inv: "Holds", Expect: "NoError", What: "for ALL integer constants: the chosen type holds the admitted interval whenever a 64-bit type can"},
			{Module: "IntSizeInd", Inv: "Narrowest", Expect: "NoError", What: "no narrower signed or unsigned type holds the admitted interval"},
			{Module: "IntSizeInd", Inv: "SameAccept", Expect: "NoError", What: "for ALL constants and every int64 value: accepted with --min-sized-ints iff it satisfies every stated bound (the removed checks are implied by the type)"},
			{Module: "IntSizeInd", Inv: "SameAcceptCrossed", Expect: "Error", What: "with the removal flags crossed (before fix 1f591fd) the accepted sets differ: the deviation switch is necessary"},
		},
		Rule:     "units = integer schemas whose lower and upper side are each absent | minimum v | numeric exclusive v | minimum v + boolean exclusive, v = landmark+{-1,0,1} around 0 and the 8/16-bit (quick) plus 32/64-bit (thorough) signed and unsigned limits, each generated with --min-sized-ints off and on; documents = every landmark+{-2..1} inside int64. Both programs must give the reference verdict on every document (hence equal accepted sets) and the Go type read by reflection from the compiled program must be a narrowest type holding the admitted interval. distinct_nontrivial = distinct (unit, document) pairs with a definite reference verdict",
		ExtraCfg: func(tier string) string { return "  Tier = \"" + tier + "\"\n" }}
}

func init() {
	families["C08"] = &rt.Family{Prop: "C08", JudgeBuild: true, Module: "MC_C08", PackSize: 1, Judge: "value", Consts: true,
		// same-named enum types (of two documents, or of one document) that differ only in their value lists
		More: []rt.Extra{{Module: "MC_C10", ExtraCfg: tierCfg, Keep: func(u *rt.Unit) bool {
			k := u.Str("kind")
			return twoDocs(u) && (k == "enums" || k == "enums2" || k == "enumn" || k == "enumn2" || k == "enumu")
		}}},
		Rule: "units = every ordered list of up to 3 distinct atoms of {\"a\",\"bé\",1,2,1.5,true,false,null} conforming to the declared type (absent, string, integer, number, boolean, null, [string,null]) x 5 uses (required, optional, via $ref, array items, optional with default); documents = the 8 atoms, 4 non-members of different JSON types, absent. Judged: verdict, decoded value and re-marshalled value (bare JSON value), and the typed string constants read from the emitted source. distinct_nontrivial = distinct (unit, document) pairs with a definite reference verdict"}
}

func init() {
	families["C09"] = &rt.Family{Prop: "C09", Module: "MC_C09", PackSize: 1, Judge: "value", JudgeBuild: true,
		More: []rt.Extra{{Module: "MC_C10", ExtraCfg: tierCfg, Keep: twoDocsDefaults},
			// a default next to constraints the Go zero value violates (minLength, pattern, bounds): units of the C06 and
			// C05 families at the position "optional with default"
			{Module: "MC_C06", ExtraCfg: maxStr(1, 2), Keep: func(u *rt.Unit) bool { return u.Str("pos") == "optdefault" }},
			{Module: "MC_C05", Keep: func(u *rt.Unit) bool { return u.Str("pos") == "optdefault" }, Frac: frac(0.05, 0.5)}},
		Rule: "units = 19 property kinds (integer, number, string with quote/backslash/non-ASCII, boolean, nullable integer/string, typed/untyped/mixed enum, arrays of string/integer, nested array, object with required fields inline and via $ref, object with optional fields, typed additionalProperties map, date, date-time, sized integer) x 2 defaults x required flag; documents = property absent, null, present with another value, present with the default. Judged: verdict, decoded value (absent/null => default, present => document value), re-marshalled value, and that the emitted package compiles. distinct_nontrivial = distinct (unit, document) pairs with a definite reference verdict"}
}

func tierCfg(tier string) string { return "  Tier = \"" + tier + "\"\n" }

func maxStr(q, t int) func(string) string {
	return func(tier string) string {
		if tier == "thorough" {
			return fmt.Sprintf("  MaxStr = %d\n", t)
		}
		return fmt.Sprintf("  MaxStr = %d\n", q)
	}
}

func frac(q, t float64) func(string) float64 {
	return func(tier string) float64 {
		if tier == "thorough" {
			return t
		}
		return q
	}
}

func init() {
	families["C02"] = &rt.Family{Prop: "C02", JudgeBuild: true, Module: "MC_C02", PackSize: 1, Judge: "value",
		More: []rt.Extra{
			{Module: "MC_C03"}, {Module: "MC_C04"}, {Module: "MC_C08"}, {Module: "MC_C09"},
			{Module: "MC_C11", Frac: frac(0.15, 1)}, {Module: "MC_C15", ExtraCfg: tierCfg, Frac: frac(0.03, 0.1)},
			{Module: "MC_C06", ExtraCfg: maxStr(2, 3), Frac: frac(0.5, 1)},
			{Module: "MC_C07", ExtraCfg: tierCfg, Frac: frac(0.25, 1)},
			{Module: "MC_C05", Frac: frac(0.02, 0.25)},
			{Module: "MC_C10", ExtraCfg: tierCfg, Keep: twoDocs}, // two documents of one run: same reference texts / definition names, different targets
		},
		Rule: "units = C02's own (objects with declared properties and additionalProperties true/{}/6 typed kinds x every subset of 4 extra keys incl. a Go field name, a case variant and the empty key; 5 string formats x required/optional/item; integers beyond 2^53 and nesting depth 3) plus the units of the C03, C04, C08, C09 families and seeded samples of C05-C07; every document that is valid under the reference semantics must be accepted, its reflective dump must hold every declared value in the field bound to that name (defaults for absent ones, exactly the undeclared keys in AdditionalProperties) and the re-marshalled JSON must reproduce every non-empty declared value. distinct_nontrivial = distinct (unit, document) pairs with a definite reference verdict"}
}

func init() {
	families["C19"] = &rt.Family{Prop: "C19", Module: "MC_C02", PackSize: 1,
		More: []rt.Extra{
			{Module: "MC_C03", Frac: frac(0.5, 1)}, {Module: "MC_C04", Frac: frac(0.25, 1)}, {Module: "MC_C08", Frac: frac(0.1, 0.5)},
			{Module: "MC_C09"}, {Module: "MC_C11", Frac: frac(0.15, 1)}, {Module: "MC_C06", ExtraCfg: maxStr(1, 2), Frac: frac(0.2, 1)},
			{Module: "MC_C07", ExtraCfg: tierCfg, Frac: frac(0.08, 0.5)}, {Module: "MC_C05", Frac: frac(0.005, 0.05)},
		},
		Rule: "programs = units of the C02-C09 families generated with --extra-imports; calls = for every document of every unit: UnmarshalJSON called directly and UnmarshalYAML via yaml.v3, each with a zero destination and with a destination previously decoded from a sibling document; plus malformed input for the first two documents (every prefix, trailing garbage, doubled document, invalid UTF-8, nesting depth 10001, lone tokens). distinct_nontrivial = calls that returned an error (the all-or-nothing clause is exercised)"}
}

func init() {
	families["C17"] = &rt.Family{Prop: "C17", JudgeBuild: true, Module: "MC_C02", PackSize: 1, Judge: "yaml", ForceExtraImports: true, Calls: rt.YamlCalls,
		More: []rt.Extra{
			{Module: "MC_C04", Frac: frac(0.5, 1)}, {Module: "MC_C08", Frac: frac(0.2, 1)}, {Module: "MC_C09"},
			{Module: "MC_C06", ExtraCfg: maxStr(2, 3), Frac: frac(0.3, 1)},
			{Module: "MC_C07", ExtraCfg: tierCfg, Frac: frac(0.1, 0.5)}, {Module: "MC_C05", Frac: frac(0.01, 0.1)},
			// property names with punctuation both decoders accept (percent signs, braces, colons): the JSON and the YAML
			// method are rendered from the same validator objects, one after the other
			{Module: "MC_C14S", Keep: func(u *rt.Unit) bool { ok, _ := u.Raw["tagok"].(bool); return u.Str("fam") == "tagchars" && ok }},
		},
		Rule: "programs = units of the C02, C04-C09 families (and C14's property names with punctuation) generated with --extra-imports; every document that is valid or whose only faults are required / bound / length / pattern / enum violations (no value of a wrong JSON type) is decoded through UnmarshalJSON, through UnmarshalYAML given the JSON text as flow YAML, and through UnmarshalYAML given block-style YAML; verdicts and reflective dumps of the destination must agree. distinct_nontrivial = distinct in-scope (unit, document) pairs"}
}

func init() {
	families["C11"] = &rt.Family{Prop: "C11", Module: "MC_C11", PackSize: 1, JudgeBuild: true,
		// allOf lists of two documents that hold the textually identical branch "$ref": "#/$defs/Base"
		More: []rt.Extra{{Module: "MC_C10", ExtraCfg: tierCfg, Keep: func(u *rt.Unit) bool { return u.Str("ctx") == "twoall" }},
			// the allOf / anyOf contexts of the required-property family (required lists split over branches, a $ref
			// branch requiring names another branch declares, nested objects declared by two branches)
			{Module: "MC_C04", Keep: func(u *rt.Unit) bool {
				c := u.Str("ctx")
				return len(c) > 5 && (c[:5] == "allOf" || c == "anyOf")
			}, Frac: frac(0.5, 1)}},
		Select: func(units []*rt.Unit, tier string, rng *rand.Rand) []*rt.Unit {
			if tier == "thorough" {
				return units
			}
			return sample(units, rng, func(u *rt.Unit) bool { return false }, 0.4)
		},
		Rule: "units = every ordered list of 1..3 distinct branches out of 7 templates (disjoint / overlapping property sets, same or different keyword on the overlapping property, conflicting type, required-only branch, branch without validator) x {allOf, anyOf} x {inline, all by $ref, first by $ref} (1554 units; quick replays a seeded 40%); documents = all 84 assignments of absent / five integers / wrong type to p, absent / short / long / wrong type to q, absent / boolean / wrong type to r. distinct_nontrivial = distinct (unit, document) pairs with a definite reference verdict"}
}

func init() {
	families["C14"] = &rt.Family{Prop: "C14", Module: "MC_C14S", PackSize: 1, Judge: "value", JudgeBuild: true,
		Rule: "second part: every 2- and 3-element subset of 13 property names that collide after normalisation (364 sibling sets), two schemas whose nested / anyOf-branch / definition types collide on their Go type name, and 6 --capitalization lists over 8 names; each unit must compile and every key must land in the field bound to that exact key. distinct_nontrivial = distinct (unit, document) pairs with a definite reference verdict"}
}

func init() {
	families["C12"] = &rt.Family{Prop: "C12", Module: "MC_C14S", PackSize: 1,
		More: []rt.Extra{
			{Module: "MC_C02", Frac: frac(0.5, 1)}, {Module: "MC_C04", Frac: frac(0.05, 0.5)}, {Module: "MC_C08", Frac: frac(0.01, 0.1)},
			{Module: "MC_C09", Frac: frac(0.3, 1)}, {Module: "MC_C11", Frac: frac(0.01, 0.1)},
			// goJSONSchema extension objects (explicit identifiers that collide with derived or with each other's names)
			{Module: "MC_C01", Keep: func(u *rt.Unit) bool { return u.Str("fam") == "ext" }},
			// documents that hold `$defs` next to a legacy `definitions` block with a same-named, different entry
			{Module: "MC_C03", Keep: func(u *rt.Unit) bool { return u.Str("ctx") == "bothdefs" }},
		}}
}

func init() {
	families["C16"] = &rt.Family{Prop: "C16", Module: "MC_C02", PackSize: 1,
		More: []rt.Extra{
			{Module: "MC_C04", Frac: frac(0.02, 0.2)}, {Module: "MC_C08", Frac: frac(0.004, 0.04)}, {Module: "MC_C09", Frac: frac(0.1, 1)},
			{Module: "MC_C11", Frac: frac(0.003, 0.03)}, {Module: "MC_C06", ExtraCfg: maxStr(1, 1), Frac: frac(0.01, 0.1)}, {Module: "MC_C05", Frac: frac(0.0003, 0.003)},
		}}
}

func init() {
	families["C01"] = &rt.Family{Prop: "C01", Module: "MC_C01", PackSize: 1, Judge: "build", JudgeBuild: true,
		LayoutBuilds: true,
		MixedPacks: func(tier string) int {
			if tier == "thorough" {
				return 3000
			}
			return 400
		},
		More: []rt.Extra{
			{Module: "MC_C02"}, {Module: "MC_C03"}, {Module: "MC_C09"}, {Module: "MC_C14S", Frac: frac(0.2, 1)},
			{Module: "MC_C04", Frac: frac(0.3, 1)}, {Module: "MC_C08", Frac: frac(0.15, 1)}, {Module: "MC_C11", Frac: frac(0.15, 1)},
			{Module: "MC_C06", ExtraCfg: maxStr(1, 1), Frac: frac(0.3, 1)}, {Module: "MC_C07", ExtraCfg: tierCfg, Frac: frac(0.15, 1)},
			{Module: "MC_C05", Frac: frac(0.01, 0.2)}, {Module: "MC_C15", ExtraCfg: tierCfg, Frac: frac(0.05, 0.3)},
			{Module: "MC_C10", ExtraCfg: tierCfg, Frac: frac(0.5, 1)},
			{Module: "MC_C10R", ExtraCfg: func(t string) string { return "  Tier = \"" + t + "\"\n  NDefs = 2\n  RD = {}\n" }, Frac: frac(0.5, 1)},
		},
		Rule: "programs = C01's own units (11 hostile description / title texts x 5 positions, goJSONSchema extension objects of 4 kinds x 4 positions, patterns with quote / backslash class / backtick, definitions of 21 kinds that nothing / only an interface{} referrer / one or two properties / array items refer to; each under 4 option sets: default, --extra-imports, --only-models, --min-sized-ints) plus the multi-document forms and reference graphs of C10 and the units of every other family (seeded samples of the large ones); every program the generator emits without error must be formatted by the generator, be gofmt-stable and compile against exactly its imports (go build: undeclared and unused identifiers / imports, ill-typed literals are errors). Compile failures the specification predicts per unit (field nobuild) are the recorded findings. distinct_nontrivial counts programs (documents are not judged)"}
}

func hasMult(u *rt.Unit) bool {
	b := fmt.Sprint(u.Raw["schema"], u.Raw["defs"])
	return containsStr(b, "multipleOf")
}

func containsStr(s, sub string) bool {
	for i := 0; i+len(sub) <= len(s); i++ {
		if s[i:i+len(sub)] == sub {
			return true
		}
	}
	return false
}

func Run(prop, tier string) int {
	if prop == "C19" {
		return rt.RunTotal(families[prop], tier)
	}
	if prop == "C12" {
		return rt.RunDeterminism(families[prop], tier, "classes = seeded samples of the units of the C02, C04, C08, C09, C11, C14 families (single-file schemas) and 3 multi-file CLI scenarios with cross-file references, per-schema package / output / root-type mappings (ids also spelled with a trailing #), definitions and properties that collide on their Go name, options; variants = 8 (thorough 32) repeated in-process runs (Go re-randomises every map range), 6 (24) random permutations of the keys of every JSON object, 3 (8) separate processes, absolute vs relative arguments, the schema directory moved elsewhere; all variants of a class must produce byte-identical output. distinct_nontrivial = variants other than the first")
	}
	if prop == "C20" {
		return rt.RunLayouts(tier, "layouts = files a, b, c (+ unrelated z), each with its own $id, root type and definition x reference graph (none, chain, diamond, 2-cycle) x mapping mode (all default; each id its own package and file; two ids sharing a file and package; two ids sharing a file under different packages; a package mapping without an output mapping) x directory layout (flat; b and c in a sub-directory with relative references); runs = every ordered list of distinct files as arguments (quick: up to 2 files, or 3 without z; thorough: all up to 4). distinct_nontrivial = runs with more than one argument")
	}
	if prop == "C16" {
		return rt.RunOptions(families[prop], tier, "schemas = a kitchen-sink schema (pattern, multipleOf, formats, defaults, string and mixed enums, typed additionalProperties, anyOf, $ref, titles, names the capitalization list applies to) plus seeded samples of the units of the C02, C04, C05, C06, C08, C09, C11 families; each generated under all 64 subsets of {only-models, tags, capitalization, struct-name-from-title, schema-root-type, extra-imports}; events = all 192 pairs of sets differing in exactly one option per schema; TLC applies the table of spec/Options.tla to go/ast projections of the two programs and both must compile. distinct_nontrivial = pairs whose two sides both generate")
	}
	if prop == "C13" {
		return rt.RunSpellings(tier, "classes = 3 base shapes (ids, schema-level and type-level definitions, $ref prefixes, dependent schemas, items / additionalProperties / property anything-schemas, property names YAML reads as number / boolean / null); variants = EVERY subset of the applicable re-spelling switches (id, definitions, #/definitions/, upper-case prefix, dependencies, type as one-element list, true for {}, legacy and current key both present) x {JSON, block YAML, flow YAML with unquoted special keys}; all variants of a class must produce byte-identical output. distinct_nontrivial = variants other than the canonical one")
	}
	if prop == "C14" {
		return rt.RunNames(families[prop], tier)
	}
	if prop == "C10" {
		return rt.RunRefs(tier)
	}
	if prop == "C18" {
		return rt.RunCLI("C18", tier, "scenarios = flag status (ok / no arguments / no package / mapping without '=' / unknown flag / malformed bool) x output mode (stdout / -o file with a pre-existing sentinel / per-schema files in new directories) x 1..2 (thorough: 3) arguments, each valid or carrying one of 14 file-level faults or one of 13 ungeneratable elements at one of 7 positions (quick: at most one faulty argument among two); plus a seeded byte-level sweep (prefixes, single-byte replacement / deletion / insertion of a valid schema file). distinct_nontrivial = runs that ended with a non-zero status (the clean-failure clause is exercised)")
	}
	if f, ok := families[prop]; ok {
		return rt.RunFamily(f, tier)
	}
	fmt.Printf("INCONCLUSIVE property=%s no check registered\n", prop)
	return 2
}

// SelfTest runs the binding demonstration of a runtime family (development aid).
func SelfTest(prop, tier string) int {
	if f, ok := families[prop]; ok && prop != "C12" && prop != "C16" && prop != "C19" {
		return rt.SelfTest(f, tier)
	}
	fmt.Printf("INCONCLUSIVE property=%s no selftest for this check\n", prop)
	return 2
}

func Replay(prop, path string) int {
	if prop == "C10" {
		return rt.ReplayRefs(path)
	}
	if f, ok := families[prop]; ok && prop != "C12" && prop != "C16" && prop != "C19" {
		if rt.IsUnitReplay(path) {
			return rt.ReplayFile(f, path)
		}
	}
	// The remaining checks (CLI runs, layouts, equivalence classes, option pairs, call outcomes) judge a case in the
	// context of its whole enumerated space (expected outcomes come from TLC runs over that space): the replay
	// re-runs the check in the tier and with the seed the file was written under and reports whether the same case
	// is reported again.
	tier, seed := rt.ReplayTierSeed(path)
	if seed != "" {
		os.Setenv("VERIF_SEED", seed)
	}
	os.Setenv("VERIF_EVIDENCE_DIR", os.TempDir()) // a replay must not overwrite the evidence of the registered check
	fmt.Printf("replaying %s by re-running the %s tier of %s (seed %s)\n", path, tier, prop, seed)
	code := Run(prop, tier)
	if code == 1 {
		fmt.Printf("VIOLATION property=%s replay=%s\n", prop, path)
	}
	return code
}
