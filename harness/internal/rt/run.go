package rt

import (
	"encoding/json"
	"fmt"
	"math/rand"
	"os"
	"path/filepath"
	"runtime"
	"sort"
	"strconv"
	"strings"
	"time"

	"verif/harness/internal/abs"
	"verif/harness/internal/tlc"
	"verif/harness/internal/work"
)

// Exit codes: 0 held, 1 violation, 2 inconclusive (infrastructure).
type Outcome struct {
	Code int
}

func Seed() int64 {
	if s := os.Getenv("VERIF_SEED"); s != "" {
		if n, err := strconv.ParseInt(s, 10, 64); err == nil {
			return n
		}
	}
	return 1
}

type Evidence struct {
	PropertyID  string         `json:"property_id"`
	Tier        string         `json:"tier"`
	Seed        int64          `json:"seed"`
	Level       string         `json:"level"`
	Coverage    map[string]any `json:"coverage"`
	Assumptions []string       `json:"assumptions"`
	WallS       float64        `json:"wall_s"`
	Violations  int            `json:"violations"`
}

func WriteEvidence(ev *Evidence) error {
	dir := filepath.Join(Home(), "evidence")
	if d := os.Getenv("VERIF_EVIDENCE_DIR"); d != "" {
		dir = d // development runs against patched scratch trees must not overwrite real evidence
	}
	_ = os.MkdirAll(dir, 0o755)
	b, _ := json.MarshalIndent(ev, "", " ")
	return os.WriteFile(filepath.Join(dir, ev.PropertyID+".json"), append(b, '\n'), 0o644)
}

func infra(prop string, err error) int {
	fmt.Printf("INCONCLUSIVE property=%s infrastructure: %v\n", prop, err)
	return 2
}

type Replay struct {
	Property string         `json:"property"`
	Kind     string         `json:"kind"`
	Unit     map[string]any `json:"unit"`
	DocIndex int            `json:"doc_index"` // 1-based, as in the TLA+ sequence
	Schema   string         `json:"schema_text"`
	Options  work.Cfg       `json:"options"`
	Document string         `json:"document_text"`
	Expected string         `json:"expected"`
	Observed string         `json:"observed"`
	Detail   string         `json:"detail"`
	HowTo    string         `json:"how_to_rerun"`
}

func writeReplay(r *Replay, name string) (string, error) {
	dir := filepath.Join(Home(), "replay", r.Property)
	if err := os.MkdirAll(dir, 0o755); err != nil {
		return "", err
	}
	p := filepath.Join(dir, name+".json")
	b, _ := json.MarshalIndent(r, "", " ")
	return p, os.WriteFile(p, append(b, '\n'), 0o644)
}

// RunFamily performs one check run of a runtime-family property.
func RunFamily(f *Family, tier string) int {
	t0 := time.Now()
	seed := Seed()
	rng := rand.New(rand.NewSource(seed))
	fnd, err := LoadFindings()
	if err != nil {
		return infra(f.Prop, err)
	}
	devs := fnd.OpenDevs()
	sc, err := work.New(f.Prop)
	if err != nil {
		return infra(f.Prop, err)
	}
	defer sc.Close()
	if err := sc.InitModule(); err != nil {
		return infra(f.Prop, err)
	}
	tEnum := time.Now()
	units, mc, err := Enumerate(f, sc, devs, tier)
	if err != nil {
		return infra(f.Prop, err)
	}
	if len(units) == 0 {
		return infra(f.Prop, fmt.Errorf("TLC enumerated no units"))
	}
	sel := units
	if f.Select != nil {
		sel = f.Select(units, tier, rng)
	}
	dEnum := time.Since(tEnum).Seconds()
	memlog("enumerated")
	// unbounded (SMT) checks of the design run next to the replay
	apaDone := make(chan []map[string]any, 1)
	go func() {
		var out []map[string]any
		for _, a := range f.Unbounded {
			oc, wall, err := tlc.Apalache(a.Module, a.Inv, filepath.Join(sc.Dir, "apalache-"+a.Inv), 5*time.Minute)
			m := map[string]any{"module": a.Module, "invariant": a.Inv, "expected": a.Expect, "outcome": oc, "wall_s": wall, "what": a.What,
				"cmd": "apalache-mc check --length=0 --init=Init --inv=" + a.Inv + " " + a.Module + ".tla"}
			if err != nil {
				m["outcome"] = "not run: " + firstLine(err.Error())
			}
			out = append(out, m)
		}
		apaDone <- out
	}()
	tExec := time.Now()
	execs, err := Execute(f, sc, "u", sel, f.PackSize)
	if err != nil {
		return infra(f.Prop, err)
	}
	// a packed program that failed to generate or build is split into singletons (bisect), so that one
	// bad unit cannot hide its siblings
	if f.PackSize > 1 {
		var again []*Unit
		var pos []int
		for i, e := range execs {
			if !e.Built {
				again = append(again, e.Unit)
				pos = append(pos, i)
			}
		}
		if len(again) > 0 {
			re, err := Execute(f, sc, "s", again, 1)
			if err != nil {
				return infra(f.Prop, err)
			}
			for k, i := range pos {
				execs[i] = re[k]
			}
		}
	}
	var events []*obsEvent
	var evExec []*Exec
	unobs := 0
	var unobsSample []string
	for _, e := range execs {
		ev, err := Observation(e, f.JudgeBuild)
		if err != nil {
			return infra(f.Prop, err)
		}
		if ev == nil {
			unobs++
			if len(unobsSample) < 3 {
				unobsSample = append(unobsSample, firstLine(e.GenErr+e.BuildErr))
			}
			continue
		}
		if err := ev.compact(); err != nil {
			return infra(f.Prop, err)
		}
		events = append(events, ev)
		evExec = append(evExec, e)
	}
	if unobs*2 > len(execs) {
		return infra(f.Prop, fmt.Errorf("%d of %d units could not be observed (generation or build failed), e.g. %v", unobs, len(execs), unobsSample))
	}
	dExec := time.Since(tExec).Seconds()
	memlog("executed+observed")
	tVal := time.Now()
	reports, tally, tr, err := Validate(f, sc, "tv", events, devs)
	dVal := time.Since(tVal).Seconds()
	memlog("validated")
	if err != nil {
		return infra(f.Prop, err)
	}
	// --- classify ---
	knownSeen := map[string]int{}
	type viol struct {
		rep Report
		e   *Exec
	}
	var viols []viol
	seen := map[[2]int]bool{}
	for _, r := range reports {
		if seen[[2]int{r.L, r.I}] {
			continue
		}
		seen[[2]int{r.L, r.I}] = true
		switch r.Class {
		case "known":
			for _, d := range r.Devs {
				knownSeen[d]++
			}
		case "violation":
			viols = append(viols, viol{r, evExec[r.L-1]})
		}
	}
	// --- full report log (every non-ok event), for triage ---
	{
		dir := filepath.Join(Home(), "replay", f.Prop)
		_ = os.MkdirAll(dir, 0o755)
		if fh, err := os.Create(filepath.Join(dir, fmt.Sprintf("reports-%s-seed%d.ndjson", tier, seed))); err == nil {
			enc := json.NewEncoder(fh)
			enc.SetEscapeHTML(false)
			perClass := map[string]int{}
			for _, r := range reports {
				// triage needs every violation and a good sample of the rest, not 10^5 unspecified documents
				perClass[r.Class]++
				if r.Class != "violation" && perClass[r.Class] > 3000 {
					continue
				}
				e := evExec[r.L-1]
				m := map[string]any{"class": r.Class, "kind": r.Kind, "devs": r.Devs, "ref": r.Ref, "obs": r.Obs, "impl": r.Impl,
					"schema": e.Schema, "opts": e.Unit.Raw["opts"], "builderr": firstLine(e.BuildErr), "fmtbad": e.FmtBad}
				for _, k := range []string{"pos", "ctx", "kind", "use", "req"} {
					if v, ok := e.Unit.Raw[k]; ok {
						m["unit_"+k] = v
					}
				}
				if f.Judge == "yaml" && r.I >= 1 && r.I <= len(e.Texts) && e.Out != nil && 3*r.I <= len(e.Out.Res) {
					m["doc"] = e.Texts[r.I-1]
					for k, nm := range []string{"json", "yamlflow", "yamlblock"} {
						x := e.Out.Res[3*(r.I-1)+k]
						m[nm] = map[string]any{"err": x.Err, "msg": x.Msg, "dump": x.Dump}
					}
				} else if r.I >= 1 && r.I <= len(e.Texts) && e.Out != nil && r.I <= len(e.Out.Res) {
					m["doc"] = e.Texts[r.I-1]
					m["msg"] = e.Out.Res[r.I-1].Msg
					m["dump"] = e.Out.Res[r.I-1].Dump
					m["out"] = e.Out.Res[r.I-1].Out
				}
				_ = enc.Encode(m)
			}
			fh.Close()
		}
	}
	// --- confirm violations by re-execution as singleton programs ---
	confirmed := 0
	var vlines []string
	mixedPrograms, mixedBad := 0, 0
	if f.MixedPacks != nil {
		n, bad, lines, err := mixedPacks(f, sc, execs, f.MixedPacks(tier), rng, seed)
		if err != nil {
			return infra(f.Prop, err)
		}
		mixedPrograms, mixedBad = n, bad
		confirmed += bad
		vlines = append(vlines, lines...)
	}
	layoutPrograms, layoutBad := 0, 0
	if f.LayoutBuilds {
		n, bad, lines, err := layoutBuilds(f, sc, seed)
		if err != nil {
			return infra(f.Prop, err)
		}
		layoutPrograms, layoutBad = n, bad
		confirmed += bad
		vlines = append(vlines, lines...)
	}
	if len(viols) > 0 && f.Judge == "yaml" {
		// three results per document; programs are singletons already, nothing to re-pack
		for _, v := range viols {
			confirmed++
			if len(vlines) < 10 {
				i := v.rep.I - 1
				var parts []string
				for k := 0; k < 3 && 3*i+k < len(v.e.Out.Res); k++ {
					r := v.e.Out.Res[3*i+k]
					parts = append(parts, fmt.Sprintf("%s: err=%v (%s) dump=%s", []string{"json", "yaml-flow", "yaml-block"}[k], r.Err, r.Msg, r.Dump))
				}
				rp := &Replay{Property: f.Prop, Kind: "json-vs-yaml", Unit: v.e.Unit.Raw, DocIndex: v.rep.I, Schema: v.e.Schema,
					Options: v.e.Unit.Opts(), Document: v.e.Texts[i], Expected: "same verdict and decoded value through both paths",
					Observed: v.rep.Obs, Detail: strings.Join(parts, " | "), HowTo: "bin/vcheck replay " + f.Prop + " <this file>"}
				p, err := writeReplay(rp, fmt.Sprintf("seed%d-unit%d-doc%d", seed, v.e.Unit.Idx, v.rep.I))
				if err != nil {
					return infra(f.Prop, err)
				}
				vlines = append(vlines, fmt.Sprintf("VIOLATION property=%s replay=%s", f.Prop, p))
			}
		}
	} else if len(viols) > 0 {
		sort.Slice(viols, func(i, j int) bool { return viols[i].e.Unit.Idx < viols[j].e.Unit.Idx })
		// distinct units, at most 12
		var vu []*Unit
		uidx := map[int]int{}
		for _, v := range viols {
			if _, ok := uidx[v.e.Unit.Idx]; !ok && len(vu) < 12 {
				uidx[v.e.Unit.Idx] = len(vu)
				vu = append(vu, v.e.Unit)
			}
		}
		re, err := Execute(f, sc, "c", vu, 1)
		if err != nil {
			return infra(f.Prop, fmt.Errorf("re-execution of violating units failed: %w", err))
		}
		for _, v := range viols {
			k, ok := uidx[v.e.Unit.Idx]
			if !ok {
				continue
			}
			e2 := re[k]
			i := v.rep.I - 1
			if i < 0 { // unit-level report (chosen Go type, declared constants): no single document
				confirmed++
				if len(vlines) < 10 {
					rp := &Replay{Property: f.Prop, Kind: "runtime-unit/" + v.rep.Kind, Unit: v.e.Unit.Raw, DocIndex: 0,
						Schema: v.e.Schema, Options: v.e.Unit.Opts(), Expected: v.rep.Ref, Observed: v.rep.Obs,
						Detail: "unit-level check failed: " + v.rep.Kind + " " + firstLine(v.e.BuildErr) + " " + v.e.FmtBad, HowTo: "bin/vcheck replay " + f.Prop + " <this file>"}
					p, err := writeReplay(rp, fmt.Sprintf("seed%d-unit%d-%s", seed, v.e.Unit.Idx, v.rep.Kind))
					if err != nil {
						return infra(f.Prop, err)
					}
					vlines = append(vlines, fmt.Sprintf("VIOLATION property=%s replay=%s", f.Prop, p))
				}
				continue
			}
			same := false
			if e2.Built && e2.Out != nil && i < len(e2.Out.Res) && v.e.Out != nil {
				a, b := e2.Out.Res[i], v.e.Out.Res[i]
				same = (a.Err || a.Panic) == (b.Err || b.Panic)
			}
			src := e2
			if !same {
				// manifests only inside the packed program: replay the packed program as it was
				src = v.e
			}
			confirmed++
			if len(vlines) < 10 {
				rp := &Replay{Property: f.Prop, Kind: "runtime-unit", Unit: v.e.Unit.Raw, DocIndex: v.rep.I,
					Schema: src.Schema, Options: v.e.Unit.Opts(), Document: src.Texts[i],
					Expected: v.rep.Ref, Observed: v.rep.Obs,
					Detail: fmt.Sprintf("%s check: reference verdict %s, observed %s (model with open deviations predicts %s); error text: %q; destination dump: %s; re-marshalled: %s",
						v.rep.Kind, v.rep.Ref, v.rep.Obs, v.rep.Impl, v.e.Out.Res[i].Msg, v.e.Out.Res[i].Dump, v.e.Out.Res[i].Out),
					HowTo: "bin/vcheck replay " + f.Prop + " <this file>"}
				p, err := writeReplay(rp, fmt.Sprintf("seed%d-unit%d-doc%d", seed, v.e.Unit.Idx, v.rep.I))
				if err != nil {
					return infra(f.Prop, err)
				}
				vlines = append(vlines, fmt.Sprintf("VIOLATION property=%s replay=%s", f.Prop, p))
			}
		}
	}
	// --- evidence ---
	samples := []any{}
	for _, k := range []int{0, len(evExec) / 2, len(evExec) - 1} {
		if k >= 0 && k < len(evExec) {
			e := evExec[k]
			if e.Out == nil || len(e.Out.Res) == 0 {
				samples = append(samples, map[string]any{"schema": e.Schema, "compiles": false, "compiler": firstLine(e.BuildErr)})
				continue
			}
			d := len(e.Texts) / 2
			j := d
			if f.Judge == "yaml" {
				j = 3 * d
			}
			samples = append(samples, map[string]any{"schema": e.Schema, "document": e.Texts[d],
				"observed_error": e.Out.Res[j].Err, "error_text": e.Out.Res[j].Msg, "remarshalled": e.Out.Res[j].Out})
		}
	}
	progs := map[string]bool{}
	for _, e := range evExec {
		progs[e.ProgID] = true
	}
	ev := &Evidence{PropertyID: f.Prop, Tier: tier, Seed: seed, Level: "model_checking",
		Coverage: map[string]any{
			"states":                        mc.Distinct + tr.Distinct,
			"transitions":                   mc.Generated + tr.Generated,
			"traces_validated_against_impl": len(events),
			"evaluations":                   tally.Ok + tally.Un + tally.Known + tally.Viol,
			"distinct_nontrivial":           tally.Acc + tally.Rej,
			"rule":                          f.Rule,
			"samples":                       samples,
			"programs":                      len(progs),
			"units_enumerated_by_tlc":       len(units),
			"units_replayed_on_real_code":   len(execs),
			"units_unobservable":            unobs,
			"unobservable_examples":         unobsSample,
			"exhaustive":                    len(sel) == len(units) && unobs == 0,
			"mc_states":                     mc.Distinct,
			"mc_wall_s":                     mc.WallS,
			"trace_states":                  tr.Distinct,
			"ref_accept":                    tally.Acc,
			"ref_reject":                    tally.Rej,
			"unspecified":                   tally.Un,
			"known_finding_events":          tally.Known,
			"drift_events":                  tally.Drift,
			"checker_cmd":                   mc.Cmd,
			"open_deviations":               devs,
		},
		Assumptions: append([]string{
			"the concretiser (harness/internal/abs) prints abstract schemas/documents faithfully",
			"packing several units as sibling optional sub-objects of one program does not change their behaviour (violations are re-executed as singletons)",
		}, f.Assume...),
		WallS: time.Since(t0).Seconds(), Violations: confirmed}
	if f.MixedPacks != nil {
		ev.Coverage["mixed_programs"] = mixedPrograms
		ev.Coverage["mixed_programs_not_compiling"] = mixedBad
		ev.Coverage["mixed_rule"] = "programs that combine 6 seed-chosen units of different families (each of which compiles on its own) as sibling properties, with their definitions side by side: imports, helper identifiers and type names of different features must not clash"
	}
	if f.LayoutBuilds {
		ev.Coverage["multi_output_runs"] = layoutPrograms
		ev.Coverage["multi_output_runs_not_compiling"] = layoutBad
		ev.Coverage["multi_output_rule"] = "the multi-file layouts of spec/MC_C20.tla (4 reference graphs x mappings default / own / samebase / sharedsame / onepkg, all four files as arguments): every run that succeeds must emit packages that build together; a failure is excused only by the layout's nobuild prediction (open deviation SameBaseImportClash) or a package cycle no generator could avoid"
	}
	if apa := <-apaDone; len(apa) > 0 {
		ev.Coverage["apalache"] = apa
		for _, m := range apa {
			oc, _ := m["outcome"].(string)
			if !strings.HasPrefix(oc, "not run") && oc != m["expected"] {
				return infra(f.Prop, fmt.Errorf("unbounded design-level check %v %v: outcome %s, expected %v", m["module"], m["invariant"], oc, m["expected"]))
			}
		}
	}
	if f.Judge == "build" { // programs, not documents, are the cases
		ev.Coverage["evaluations"] = len(events)
		ev.Coverage["distinct_nontrivial"] = len(events)
	}
	if err := WriteEvidence(ev); err != nil {
		return infra(f.Prop, err)
	}
	// --- report ---
	for _, fd := range fnd.Findings {
		if fd.Status != "open" {
			continue
		}
		for _, p := range fd.Properties {
			if p == f.Prop {
				fmt.Printf("KNOWN-FINDING: property=%s %s %s (observed on %d events in this run)\n", f.Prop, fd.ID, fd.What, knownSeen[fd.Deviation])
			}
		}
	}
	fmt.Printf("%s tier=%s seed=%d: TLC enumerated %d units (%d states, design invariants hold); replayed %d units in %d real programs; %d events validated by TLC: ok=%d unspecified=%d known=%d drift=%d violations=%d; unobservable units=%d; %.1fs (enumerate+design check %.0fs, generate+build+run %.0fs, trace validation %.0fs)\n",
		f.Prop, tier, seed, len(units), mc.Distinct, len(execs), len(progs), len(events), tally.Ok, tally.Un, tally.Known, tally.Drift, tally.Viol, unobs, time.Since(t0).Seconds(), dEnum, dExec, dVal)
	if confirmed > 0 {
		for _, l := range vlines {
			fmt.Println(l)
		}
		return 1
	}
	return 0
}

// vacuity: every named action of a state-machine specification must have generated at least one state somewhere
// in the configurations of this run (TLC -coverage); an action never enabled means the properties were never
// exercised on it. Reported as inconclusive (exit 2), never as a verdict.
func vacuity(prop string, acts map[string][2]int64, ignore ...string) (map[string]any, error) {
	out := map[string]any{}
	for k, v := range acts {
		out[k] = map[string]int64{"distinct": v[0], "generated": v[1]}
	}
	if len(acts) == 0 {
		return out, fmt.Errorf("TLC printed no coverage statistics")
	}
	if nt := tlc.NeverTaken(acts, ignore...); len(nt) > 0 {
		return out, fmt.Errorf("vacuous: the specification's actions %v were never taken in any configuration of this run", nt)
	}
	return out, nil
}

// memlog prints the live heap at a phase boundary when VERIF_MEMLOG is set (development aid).
func memlog(tag string) {
	if os.Getenv("VERIF_MEMLOG") == "" {
		return
	}
	var m runtime.MemStats
	runtime.GC()
	runtime.ReadMemStats(&m)
	fmt.Fprintf(os.Stderr, "[mem] %s: heap=%dMB sys=%dMB\n", tag, m.HeapAlloc>>20, m.Sys>>20)
}

func firstLine(s string) string {
	s = strings.TrimSpace(s)
	if i := strings.IndexByte(s, '\n'); i >= 0 {
		s = s[:i]
	}
	if len(s) > 200 {
		s = s[:200]
	}
	return s
}

// ReplayFile re-executes one replay file against the real code and judges it with TLC again.
func ReplayFile(f *Family, path string) int {
	b, err := os.ReadFile(path)
	if err != nil {
		return infra(f.Prop, err)
	}
	var rp Replay
	dec := json.NewDecoder(strings.NewReader(string(b)))
	dec.UseNumber()
	if err := dec.Decode(&rp); err != nil {
		return infra(f.Prop, err)
	}
	fnd, err := LoadFindings()
	if err != nil {
		return infra(f.Prop, err)
	}
	sc, err := work.New(f.Prop + "-replay")
	if err != nil {
		return infra(f.Prop, err)
	}
	defer sc.Close()
	if err := sc.InitModule(); err != nil {
		return infra(f.Prop, err)
	}
	u := &Unit{Raw: rp.Unit}
	ex, err := Execute(f, sc, "r", []*Unit{u}, 1)
	if err != nil {
		return infra(f.Prop, err)
	}
	ev, _ := Observation(ex[0], f.JudgeBuild)
	if ev == nil {
		return infra(f.Prop, fmt.Errorf("unit not observable: %s %s", ex[0].GenErr, ex[0].BuildErr))
	}
	reports, tally, _, err := Validate(f, sc, "rv", []*obsEvent{ev}, fnd.OpenDevs())
	if err != nil {
		return infra(f.Prop, err)
	}
	fmt.Printf("schema:   %s\n", ex[0].Schema)
	for _, r := range reports {
		fmt.Printf("document %d: %s  class=%s reference=%s observed=%s (%s)\n", r.I, ex[0].Texts[r.I-1], r.Class, r.Ref, r.Obs, ex[0].Out.Res[r.I-1].Msg)
	}
	if tally.Viol > 0 {
		fmt.Printf("VIOLATION property=%s replay=%s\n", f.Prop, path)
		return 1
	}
	fmt.Println("no violation reproduced")
	return 0
}

var _ = abs.Key

// SelfTest demonstrates the binding between recorded observations and the specification for a runtime
// family (development aid, `vcheck selftest <PROP>`): the real observations are judged once as they are, then
// with the recorded verdict of every document of a few events flipped, and with one decoded value corrupted.
// The trace specification must turn flipped verdicts on documents with a definite reference verdict into
// violations (or known findings where the flip happens to be what a deviation predicts) -- if it accepted the
// corrupted trace, nothing would bind the specification to the code.
func SelfTest(f *Family, tier string) int {
	fnd, err := LoadFindings()
	if err != nil {
		return infra(f.Prop, err)
	}
	devs := fnd.OpenDevs()
	sc, err := work.New(f.Prop + "-selftest")
	if err != nil {
		return infra(f.Prop, err)
	}
	defer sc.Close()
	if err := sc.InitModule(); err != nil {
		return infra(f.Prop, err)
	}
	units, _, err := Enumerate(f, sc, devs, tier)
	if err != nil {
		return infra(f.Prop, err)
	}
	if len(units) > 60 {
		step := len(units) / 60
		var pick []*Unit
		for i := 0; i < len(units); i += step {
			pick = append(pick, units[i])
		}
		units = pick
	}
	execs, err := Execute(f, sc, "u", units, 1)
	if err != nil {
		return infra(f.Prop, err)
	}
	var events []*obsEvent
	for _, e := range execs {
		if ev, _ := Observation(e, f.JudgeBuild); ev != nil && len(ev.Res) > 0 {
			events = append(events, ev)
		}
	}
	if len(events) == 0 {
		return infra(f.Prop, fmt.Errorf("no observable unit"))
	}
	_, base, _, err := Validate(f, sc, "st0", events, devs)
	if err != nil {
		return infra(f.Prop, err)
	}
	// corrupted copy: every recorded verdict flipped
	flipped := make([]*obsEvent, len(events))
	nflip, npanic := 0, int64(0)
	for i, ev := range events {
		c := *ev
		c.Res = append([]obsRes{}, ev.Res...)
		for k := range c.Res {
			c.Res[k].Err = !c.Res[k].Err
			nflip++
			if c.Res[k].Panic { // a panicked call counts as rejected whatever err says: flipping err changes nothing
				npanic++
			}
		}
		flipped[i] = &c
	}
	_, fl, _, err := Validate(f, sc, "st1", flipped, devs)
	if err != nil {
		return infra(f.Prop, err)
	}
	fmt.Printf("selftest %s: %d events, %d observations. As recorded: ok=%d unspecified=%d known=%d violations=%d. With every recorded verdict flipped: ok=%d unspecified=%d known=%d violations=%d\n",
		f.Prop, len(events), nflip, base.Ok, base.Un, base.Known, base.Viol, fl.Ok, fl.Un, fl.Known, fl.Viol)
	// observations that were accepted as recorded (ok) must be rejected when flipped; observations that were
	// known-wrong as recorded become right when flipped (at most base.Known + panicked calls may be ok afterwards)
	// per-event judgements that do not look at the recorded verdicts (C08: declared constants, C15: chosen Go type)
	// contribute one class per event on both sides
	perEvent := int64(0)
	if f.Consts || f.Prop == "C15" {
		perEvent = int64(len(events))
	}
	if fl.Viol+fl.Known < base.Ok-npanic-perEvent || fl.Ok > base.Known+base.Viol+npanic+perEvent || fl.Viol == 0 {
		fmt.Printf("BINDING FAILED: %d observations were accepted as recorded, but only %d of their flipped versions were rejected (%d still ok)\n", base.Ok, fl.Viol+fl.Known, fl.Ok)
		// diagnostics: judge the events one by one and show those whose flipped version keeps an ok observation that
		// was ok as recorded
		for i := range events {
			_, b1, _, e1 := Validate(f, sc, fmt.Sprintf("sd%da", i), events[i:i+1], devs)
			_, f1, _, e2 := Validate(f, sc, fmt.Sprintf("sd%db", i), flipped[i:i+1], devs)
			if e1 == nil && e2 == nil && f1.Viol+f1.Known < b1.Ok {
				b, _ := json.Marshal(events[i].Unit)
				fmt.Printf("  event %d: as recorded ok=%d known=%d; flipped ok=%d known=%d violations=%d; unit %s\n", i, b1.Ok, b1.Known, f1.Ok, f1.Known, f1.Viol, firstLine(string(b)))
			}
		}
		return 1
	}
	fmt.Printf("BINDING OK: every observation accepted as recorded (%d, of which %d panicked calls whose verdict does not depend on the flipped field) is rejected when its recorded verdict is flipped (%d violations, %d coincide with what an open deviation predicts); the %d known-wrong observations become right\n",
		base.Ok, npanic, fl.Viol, fl.Known, base.Known)
	return 0
}

// IsUnitReplay reports whether a replay file holds a runtime unit (re-executable on its own).
func IsUnitReplay(path string) bool {
	b, err := os.ReadFile(path)
	if err != nil {
		return false
	}
	var m map[string]json.RawMessage
	if json.Unmarshal(b, &m) != nil {
		return false
	}
	_, ok := m["unit"]
	return ok
}

// ReplayTierSeed recovers tier and seed of the run that wrote a replay file: from the seed<N>- prefix of its name and
// the reports-<tier>-seed<N>.ndjson log next to it.
func ReplayTierSeed(path string) (string, string) {
	seed := ""
	base := filepath.Base(path)
	if strings.HasPrefix(base, "seed") {
		for _, c := range base[4:] {
			if c < '0' || c > '9' {
				break
			}
			seed += string(c)
		}
	}
	tier := "quick"
	if st, err := os.Stat(path); err == nil {
		// the newest report log of that seed written not later than a minute after the replay file
		for _, t := range []string{"thorough", "quick"} {
			if ls, err := os.Stat(filepath.Join(filepath.Dir(path), "reports-"+t+"-seed"+seed+".ndjson")); err == nil {
				if d := ls.ModTime().Sub(st.ModTime()); d > -10*time.Minute && d < 10*time.Minute {
					tier = t
					break
				}
			}
		}
	}
	return tier, seed
}

// layoutBuilds runs the multi-output layouts of the C20 family (files a, b, c, z with cross references; per-schema
// packages and output files) through the generator and builds what every run emits: C01 quantifies over runs with
// several outputs too (imports of sibling packages, no import of the file's own package).
func layoutBuilds(f *Family, sc *work.Scratch, seed int64) (int, int, []string, error) {
	type lay struct{ graph, mapping string }
	var jobs []work.GenJob
	meta := map[string]lay{}
	n := 0
	for _, g := range []string{"none", "chain", "diamond", "cycle"} {
		for _, m := range []string{"default", "own", "samebase", "sharedsame", "onepkg"} {
			id := fmt.Sprintf("y%04d", n)
			n++
			meta[id] = lay{g, m}
			var entries []string
			for _, a := range []string{"a", "b", "c", "z"} {
				entries = append(entries, layoutPath(a, "flat"))
			}
			jobs = append(jobs, work.GenJob{ID: id, Dir: filepath.Join(sc.Dir, "in", id), Files: layoutFilesFor(g, "flat", m), Entries: entries,
				OutDir: filepath.Join(sc.Mod, "gen", id), Cfg: layoutCfg(m, "vscratch/gen/"+id)})
		}
	}
	gres, err := sc.Generate(jobs)
	if err != nil {
		return 0, 0, nil, err
	}
	var ok []string
	for _, j := range jobs {
		if r := gres[j.ID]; r != nil && r.OK {
			ok = append(ok, j.ID)
		} else {
			_ = os.RemoveAll(filepath.Join(sc.Mod, "gen", j.ID))
		}
	}
	badJobs, err := sc.BuildJobs(ok)
	if err != nil {
		return 0, 0, nil, err
	}
	fnd, _ := LoadFindings()
	clashOpen := false
	if fnd != nil {
		for _, d := range fnd.OpenDevs() {
			clashOpen = clashOpen || d == "SameBaseImportClash"
		}
	}
	bad := 0
	var lines []string
	ids := make([]string, 0, len(badJobs))
	for id := range badJobs {
		ids = append(ids, id)
	}
	sort.Strings(ids)
	for _, id := range ids {
		l := meta[id]
		// what MC_C20 predicts not to build: packages that import each other (no generator can avoid it), and the
		// open deviation SameBaseImportClash (two imports under one alias)
		if l.graph == "cycle" && (l.mapping == "own" || l.mapping == "samebase") {
			continue
		}
		if clashOpen && l.mapping == "samebase" && l.graph == "diamond" {
			continue
		}
		bad++
		if len(lines) < 5 {
			rp := map[string]any{"property": f.Prop, "kind": "multi-output-run", "graph": l.graph, "mapping": l.mapping,
				"files": layoutFilesFor(l.graph, "flat", l.mapping), "options": layoutCfg(l.mapping, "MODULE"),
				"expected": "the emitted packages build together", "observed": firstLine(badJobs[id]),
				"how_to_rerun": "bin/vcheck replay " + f.Prop + " <this file>"}
			dir := filepath.Join(Home(), "replay", f.Prop)
			_ = os.MkdirAll(dir, 0o755)
			p := filepath.Join(dir, fmt.Sprintf("seed%d-layout-%s-%s.json", seed, l.graph, l.mapping))
			b, _ := json.MarshalIndent(rp, "", " ")
			if err := os.WriteFile(p, append(b, '\n'), 0o644); err == nil {
				lines = append(lines, fmt.Sprintf("VIOLATION property=%s replay=%s", f.Prop, p))
			}
		}
	}
	return len(ok), bad, lines, nil
}

// mixedPacks builds programs that combine units of different families (all compiling on their own, same options,
// single-document) as sibling properties and checks that every combination compiles. A pack that does not compile
// although each member does alone is a violation (C01 quantifies over feature COMBINATIONS).
func mixedPacks(f *Family, sc *work.Scratch, execs []*Exec, want int, rng *rand.Rand, seed int64) (int, int, []string, error) {
	if want <= 0 {
		return 0, 0, nil, nil
	}
	byOpts := map[string][]*Unit{}
	var keys []string
	for _, e := range execs {
		u := e.Unit
		if !e.Built || e.FmtBad != "" {
			continue
		}
		if _, multi := u.Raw["rootpath"]; multi {
			continue
		}
		if nb, _ := u.Raw["nobuild"].([]any); len(nb) > 0 {
			continue
		}
		k := u.optsKey()
		if _, ok := byOpts[k]; !ok {
			keys = append(keys, k)
		}
		byOpts[k] = append(byOpts[k], u)
	}
	sort.Strings(keys)
	const size = 6
	var packs [][]*Unit
	for len(packs) < want {
		progress := false
		for _, k := range keys {
			g := byOpts[k]
			if len(g) < size {
				continue
			}
			p := make([]*Unit, 0, size)
			seen := map[int]bool{}
			for len(p) < size {
				i := rng.Intn(len(g))
				if !seen[i] {
					seen[i] = true
					p = append(p, g[i])
				}
			}
			packs = append(packs, p)
			progress = true
			if len(packs) >= want {
				break
			}
		}
		if !progress {
			break
		}
	}
	if len(packs) == 0 {
		return 0, 0, nil, nil
	}
	// one Execute call per pack keeps the packs as chosen (Execute packs consecutive units of one option group)
	var flat []*Unit
	for _, p := range packs {
		flat = append(flat, p...)
	}
	fb := *f
	fb.Judge = "build"
	fb.More = nil
	re, err := Execute(&fb, sc, "m", flat, size)
	if err != nil {
		return 0, 0, nil, err
	}
	bad := 0
	var lines []string
	seenProg := map[string]bool{}
	for i, e := range re {
		if e.Built || e.GenErr != "" && false {
			continue
		}
		if seenProg[e.ProgID] {
			continue
		}
		seenProg[e.ProgID] = true
		// the members compile alone (they were selected for that): the combination is what fails
		var members []any
		for j := i - i%size; j < i-i%size+size && j < len(re); j++ {
			if re[j].ProgID == e.ProgID {
				members = append(members, re[j].Unit.Raw)
			}
		}
		bad++
		if len(lines) < 5 {
			rp := map[string]any{"property": f.Prop, "kind": "mixed-program", "schema_text": e.Schema, "options": e.Unit.Opts(), "members": members,
				"expected": "the combination compiles (every member compiles on its own)", "observed": firstLine(e.GenErr + e.BuildErr + " " + e.FmtBad),
				"how_to_rerun": "bin/vcheck replay " + f.Prop + " <this file>"}
			dir := filepath.Join(Home(), "replay", f.Prop)
			_ = os.MkdirAll(dir, 0o755)
			p := filepath.Join(dir, fmt.Sprintf("seed%d-mixed%d.json", seed, i/size))
			b, _ := json.MarshalIndent(rp, "", " ")
			if err := os.WriteFile(p, append(b, '\n'), 0o644); err == nil {
				lines = append(lines, fmt.Sprintf("VIOLATION property=%s replay=%s", f.Prop, p))
			}
		}
	}
	return len(packs), bad, lines, nil
}
