package rt

import (
	"bytes"
	"crypto/sha256"
	"encoding/hex"
	"encoding/json"
	"fmt"
	"go/ast"
	"go/parser"
	"go/printer"
	"go/token"
	"math/rand"
	"os"
	"path/filepath"
	"sort"
	"strings"
	"time"

	"verif/harness/internal/tlc"
	"verif/harness/internal/work"
)

const kitchenSink = `{"$id":"https://example.com/ks","title":"Kitchen sink title","type":"object",
 "properties":{"id":{"type":"string","pattern":"^[a-z]+$","minLength":1},"home_url":{"type":"string","format":"date-time"},
  "ratio":{"type":"number","multipleOf":0.5,"maximum":10},"count":{"type":"integer","minimum":0,"maximum":200,"default":3},
  "kind":{"enum":["a","b c"]},"mixed":{"enum":["a",1,null]},"tags":{"type":"array","items":{"type":"string"},"minItems":1},
  "nested":{"type":"object","title":"Nested title","properties":{"api_id":{"type":"integer"}},"required":["api_id"],"additionalProperties":{"type":"integer"}},
  "ref":{"$ref":"#/$defs/user_id"},"either":{"anyOf":[{"type":"object","properties":{"a":{"type":"string"}},"required":["a"]},{"type":"object","properties":{"b":{"type":"integer"}},"required":["b"]}]}},
 "required":["id"],
 "$defs":{"user_id":{"type":"object","title":"A user id","properties":{"url":{"type":"string"}}}}}`

// collisionSchema: a document in which every naming option makes Go names COLLIDE: under --capitalization URL the
// definitions serverUrl and serverURL (equal but for a default) get one name; under --struct-name-from-title the
// document and the definitions-only document it refers to share one title. An option that only renames must keep
// every declaration (the de-duplicated ones included).
const collisionSchema = `{"$id":"https://example.com/coll","title":"Example API","type":"object",
 "properties":{"legacy":{"$ref":"#/$defs/serverUrl"},"modern":{"$ref":"#/$defs/serverURL"},"common":{"$ref":"common.json#/$defs/Endpoint"},
  "user_id":{"type":"integer"},"userId":{"type":"string"}},
 "$defs":{"serverUrl":{"type":"object","properties":{"port":{"type":"integer","default":80}}},
          "serverURL":{"type":"object","properties":{"port":{"type":"integer","default":443}}}}}`
const collisionCommon = `{"title":"Example API","$defs":{"Endpoint":{"type":"object","properties":{"host":{"type":"string","minLength":1}}},
 "RetryPolicy":{"type":"object","properties":{"max":{"type":"integer","minimum":0}}}}}`

type proj struct {
	OK       bool   `json:"ok"`
	Builds   bool   `json:"builds"`
	Types    string `json:"types"`
	Alpha    string `json:"alpha"`
	NoTags   string `json:"notags"`
	JSON     string `json:"json"`
	NoFuncs  bool   `json:"nofuncs"`
	NoVars   bool   `json:"novars"`
	YamlFree bool   `json:"yamlfree"`
	err      string
}

func hashOf(parts []string) string {
	h := sha256.New()
	for _, p := range parts {
		fmt.Fprintf(h, "%d\x00%s", len(p), p)
	}
	return hex.EncodeToString(h.Sum(nil))[:20]
}

func printNode(fset *token.FileSet, n any) string {
	var b bytes.Buffer
	_ = printer.Fprint(&b, fset, n)
	return b.String()
}

func stripTags(n ast.Node) {
	ast.Inspect(n, func(x ast.Node) bool {
		if f, ok := x.(*ast.Field); ok {
			f.Tag = nil
		}
		return true
	})
}

func project(src []byte) *proj {
	p := &proj{}
	fset := token.NewFileSet()
	file, err := parser.ParseFile(fset, "x.go", src, 0)
	if err != nil {
		p.err = "emitted file does not parse: " + err.Error()
		return p
	}
	p.OK = true
	p.NoFuncs, p.NoVars, p.YamlFree = true, true, true
	for _, im := range file.Imports {
		if strings.Contains(im.Path.Value, "yaml") {
			p.YamlFree = false
		}
	}
	var jsonM []string
	for _, d := range file.Decls {
		switch x := d.(type) {
		case *ast.FuncDecl:
			p.NoFuncs = false
			if strings.HasSuffix(x.Name.Name, "YAML") {
				p.YamlFree = false
			}
			if strings.HasSuffix(x.Name.Name, "JSON") {
				jsonM = append(jsonM, printNode(fset, x))
			}
		case *ast.GenDecl:
			if x.Tok == token.VAR {
				p.NoVars = false
			}
		}
	}
	sort.Strings(jsonM)
	p.JSON = hashOf(jsonM)
	// alpha: every top-level declaration with identifiers renamed to ordinals and string literals blanked
	file2, _ := parser.ParseFile(token.NewFileSet(), "x.go", src, 0)
	var alpha []string
	for _, d := range file2.Decls {
		if g, ok := d.(*ast.GenDecl); ok && g.Tok == token.IMPORT {
			continue
		}
		names := map[string]string{}
		ast.Inspect(d, func(x ast.Node) bool {
			switch y := x.(type) {
			case *ast.Ident:
				if _, ok := names[y.Name]; !ok {
					names[y.Name] = fmt.Sprintf("i%d", len(names))
				}
				y.Name = names[y.Name]
			case *ast.BasicLit:
				if y.Kind == token.STRING {
					y.Value = `"s"`
				}
			case *ast.Field:
				y.Tag = nil
			}
			return true
		})
		alpha = append(alpha, printNode(token.NewFileSet(), d))
	}
	sort.Strings(alpha)
	p.Alpha = hashOf(alpha)
	// types / notags on a tag-free copy
	file3, _ := parser.ParseFile(fset, "x.go", src, 0)
	stripTags(file3)
	file3.Name.Name = "p" // every run has its own package name
	var types []string
	for _, d := range file3.Decls {
		if g, ok := d.(*ast.GenDecl); ok && g.Tok == token.TYPE {
			types = append(types, printNode(fset, g))
		}
	}
	sort.Strings(types)
	p.Types = hashOf(types)
	p.NoTags = hashOf([]string{printNode(fset, file3)})
	return p
}

// RunOptions performs one run of the C16 check.
func RunOptions(fam *Family, tier, rule string) int {
	prop := "C16"
	t0 := time.Now()
	seed := Seed()
	rng := rand.New(rand.NewSource(seed))
	_ = rng
	fnd, err := LoadFindings()
	if err != nil {
		return infra(prop, err)
	}
	devs := fnd.OpenDevs()
	sc, err := work.New(prop)
	if err != nil {
		return infra(prop, err)
	}
	defer sc.Close()
	if err := sc.InitModule(); err != nil {
		return infra(prop, err)
	}
	cfg := "SPECIFICATION Spec\nCONSTANTS\n  UnitsFile = \"stdout\"\nINVARIANTS Inv Emit\nCHECK_DEADLOCK FALSE\n"
	mc, err := tlc.Run(tlc.Opts{Module: "MC_C16", Cfg: cfg, Dir: filepath.Join(sc.Dir, "tlc-mc"), Workers: 4, Timeout: 5 * time.Minute, HeapGB: 2})
	if err != nil {
		return infra(prop, err)
	}
	if mc.Failed || mc.InvViolated != "" {
		return infra(prop, fmt.Errorf("design-level check of MC_C16 failed\n%s", mc.Tail))
	}
	type pair struct {
		Base []string `json:"base"`
		Opt  string   `json:"opt"`
	}
	var pairs []pair
	for _, p := range mc.Prints {
		if strings.HasPrefix(p, "PAIR ") {
			var x pair
			if err := json.Unmarshal([]byte(p[5:]), &x); err != nil {
				return infra(prop, err)
			}
			sort.Strings(x.Base)
			pairs = append(pairs, x)
		}
	}
	units, mcu, err := Enumerate(fam, sc, devs, tier)
	if err != nil {
		return infra(prop, err)
	}
	mc.Distinct += mcu.Distinct
	mc.Generated += mcu.Generated
	schemas := []string{kitchenSink, collisionSchema}
	for _, u := range units {
		t, err := unitSchema(u, nil)
		if err != nil {
			return infra(prop, err)
		}
		// give every schema an $id and a title so that --struct-name-from-title and the root-type mapping apply
		schemas = append(schemas, `{"$id":"https://example.com/u","title":"unit root title",`+t[1:])
	}
	optNames := []string{"onlymodels", "tags", "caps", "title", "roottype", "extraimports"}
	setKey := func(s []string) string { return strings.Join(s, "+") }
	mkCfg := func(id string, set map[string]bool, pkg string) work.Cfg {
		c := work.Cfg{DefaultPackageName: pkg, DefaultOutputName: "root.go", Tags: []string{"json", "yaml", "mapstructure"}}
		c.OnlyModels = set["onlymodels"]
		if set["tags"] {
			c.Tags = []string{"json"}
		}
		if set["caps"] {
			c.Capitalizations = []string{"ID", "URL", "API"}
		}
		c.StructNameFromTitle = set["title"]
		if set["roottype"] {
			c.SchemaMappings = []work.Mapping{{SchemaID: id, PackageName: pkg, RootType: "CustomRootName", OutputName: "root.go"}}
		}
		c.ExtraImports = set["extraimports"]
		return c
	}
	type run struct {
		id  string
		p   *proj
		set []string
	}
	runs := map[string]*run{} // schemaIdx/setKey
	var jobs []work.GenJob
	n := 0
	for si, text := range schemas {
		sid := "https://example.com/u"
		if si == 0 {
			sid = "https://example.com/ks"
		}
		files := map[string]string{"root.json": text}
		if si == 1 {
			sid = "https://example.com/coll"
			files["common.json"] = collisionCommon
		}
		for mask := 0; mask < 64; mask++ {
			set := map[string]bool{}
			var names []string
			for b, o := range optNames {
				if mask&(1<<b) != 0 {
					set[o] = true
					names = append(names, o)
				}
			}
			sort.Strings(names)
			id := fmt.Sprintf("o%06d", n)
			n++
			runs[fmt.Sprintf("%d/%s", si, setKey(names))] = &run{id: id, set: names}
			jobs = append(jobs, work.GenJob{ID: id, Dir: filepath.Join(sc.Dir, "in", id), Files: files,
				Entries: []string{"root.json"}, OutDir: filepath.Join(sc.Mod, "gen", id), Cfg: mkCfg(sid, set, id)})
		}
	}
	gres, err := sc.Generate(jobs)
	if err != nil {
		return infra(prop, err)
	}
	for _, r := range runs {
		g := gres[r.id]
		if g == nil || !g.OK {
			r.p = &proj{}
			if g != nil {
				r.p.err = g.Err + g.Panic
			}
			_ = os.RemoveAll(filepath.Join(sc.Mod, "gen", r.id))
			continue
		}
		src, err := os.ReadFile(g.Outputs["root.go"])
		if err != nil {
			r.p = &proj{err: "no output file root.go"}
			_ = os.RemoveAll(filepath.Join(sc.Mod, "gen", r.id))
			continue
		}
		r.p = project(src)
	}
	failed, err := sc.BuildAll("./gen/...")
	if err != nil {
		return infra(prop, err)
	}
	for _, r := range runs {
		if r.p.OK {
			_, bad := failed["gen/"+r.id]
			r.p.Builds = !bad
			if bad {
				r.p.err = firstLine(failed["gen/"+r.id])
			}
		}
	}
	type evt struct {
		Opt        string `json:"opt"`
		A          *proj  `json:"a"`
		B          *proj  `json:"b"`
		BaseBuilds bool   `json:"basebuilds"`
		si         int
		a          *run
		b          *run
	}
	var evs []*evt
	var events []any
	for si := range schemas {
		for _, p := range pairs {
			with := append(append([]string{}, p.Base...), p.Opt)
			sort.Strings(with)
			a, b := runs[fmt.Sprintf("%d/%s", si, setKey(p.Base))], runs[fmt.Sprintf("%d/%s", si, setKey(with))]
			if a == nil || b == nil {
				return infra(prop, fmt.Errorf("missing run for pair %v + %s", p.Base, p.Opt))
			}
			base := runs[fmt.Sprintf("%d/", si)]
			e := &evt{Opt: p.Opt, A: a.p, B: b.p, si: si, a: a, b: b, BaseBuilds: base != nil && base.p.Builds}
			evs = append(evs, e)
			events = append(events, e)
		}
	}
	reports, tally, tr, err := ValidateWith(sc, "tv", "Trace_C16", "  Devs = "+devSet(devs)+"\n", nil, events)
	if err != nil {
		return infra(prop, err)
	}
	dir := filepath.Join(Home(), "replay", prop)
	_ = os.MkdirAll(dir, 0o755)
	logf, _ := os.Create(filepath.Join(dir, fmt.Sprintf("reports-%s-seed%d.ndjson", tier, seed)))
	confirmed := 0
	var vlines []string
	for _, r := range reports {
		e := evs[r.L-1]
		if logf != nil {
			b, _ := json.Marshal(map[string]any{"class": r.Class, "opt": e.Opt, "without": e.a.set, "with": e.b.set, "failed": r.Obs, "schema": schemas[e.si],
				"a_err": e.A.err, "b_err": e.B.err})
			logf.Write(append(b, '\n'))
		}
		if r.Class == "violation" {
			confirmed++
			if len(vlines) < 10 {
				rp := map[string]any{"property": prop, "kind": "option-pair", "option": e.Opt, "options_without": e.a.set, "options_with": e.b.set,
					"schema_text": schemas[e.si], "components_that_differ_or_fail": r.Obs, "projection_without": e.A, "projection_with": e.B,
					"error_without": e.A.err, "error_with": e.B.err, "how_to_rerun": "bin/vcheck replay " + prop + " <this file>"}
				b, _ := json.MarshalIndent(rp, "", " ")
				p := filepath.Join(dir, fmt.Sprintf("seed%d-pair%d.json", seed, r.L))
				_ = os.WriteFile(p, b, 0o644)
				vlines = append(vlines, fmt.Sprintf("VIOLATION property=%s replay=%s", prop, p))
			}
		}
	}
	if logf != nil {
		logf.Close()
	}
	samples := []any{}
	for _, k := range []int{0, len(evs) / 2, len(evs) - 1} {
		e := evs[k]
		samples = append(samples, map[string]any{"schema": schemas[e.si], "option": e.Opt, "without": e.a.set, "with": e.b.set, "projection_without": e.A, "projection_with": e.B})
	}
	ev := &Evidence{PropertyID: prop, Tier: tier, Seed: seed, Level: "model_checking",
		Coverage: map[string]any{
			"states": mc.Distinct + tr.Distinct, "transitions": mc.Generated + tr.Generated,
			"traces_validated_against_impl": len(events), "evaluations": len(events), "distinct_nontrivial": tally.Rej,
			"rule": rule, "samples": samples, "schemas": len(schemas), "option_sets": 64, "pairs_per_schema": len(pairs), "programs": len(runs),
			"exhaustive": true, "checker_cmd": mc.Cmd, "open_deviations": devs,
		},
		Assumptions: []string{"the projections (type declarations, tag-free text, identifier-renamed declarations, JSON methods) are computed with go/parser + go/printer"},
		WallS:       time.Since(t0).Seconds(), Violations: confirmed}
	if err := WriteEvidence(ev); err != nil {
		return infra(prop, err)
	}
	for _, fd := range fnd.Findings {
		if fd.Status == "open" {
			for _, p := range fd.Properties {
				if p == prop {
					fmt.Printf("KNOWN-FINDING: property=%s %s %s\n", prop, fd.ID, fd.What)
				}
			}
		}
	}
	fmt.Printf("%s tier=%s seed=%d: TLC enumerated %d pairs of option sets; %d schemas x 64 option sets = %d real programs generated, projected and compiled; %d pair events judged by TLC: ok=%d violations=%d; %.1fs\n",
		prop, tier, seed, len(pairs), len(schemas), len(runs), len(events), tally.Ok, tally.Viol, time.Since(t0).Seconds())
	if confirmed > 0 {
		for _, l := range vlines {
			fmt.Println(l)
		}
		return 1
	}
	return 0
}
