package rt

import (
	"bytes"
	"context"
	"crypto/sha256"
	"encoding/hex"
	"encoding/json"
	"fmt"
	"math/rand"
	"os"
	"os/exec"
	"path/filepath"
	"sort"
	"strings"
	"time"

	"verif/harness/internal/tlc"
	"verif/harness/internal/work"
)

// shuffled re-serialises a JSON document with the keys of every object in a random order.
func shuffled(text string, rng *rand.Rand) string {
	dec := json.NewDecoder(strings.NewReader(text))
	dec.UseNumber()
	var v any
	if dec.Decode(&v) != nil {
		return text
	}
	var w func(v any, sb *strings.Builder)
	w = func(v any, sb *strings.Builder) {
		switch x := v.(type) {
		case map[string]any:
			keys := make([]string, 0, len(x))
			for k := range x {
				keys = append(keys, k)
			}
			sort.Strings(keys)
			rng.Shuffle(len(keys), func(i, j int) { keys[i], keys[j] = keys[j], keys[i] })
			sb.WriteByte('{')
			for i, k := range keys {
				if i > 0 {
					sb.WriteByte(',')
				}
				kb, _ := json.Marshal(k)
				sb.Write(kb)
				sb.WriteByte(':')
				w(x[k], sb)
			}
			sb.WriteByte('}')
		case []any:
			sb.WriteByte('[')
			for i, e := range x {
				if i > 0 {
					sb.WriteByte(',')
				}
				w(e, sb)
			}
			sb.WriteByte(']')
		default:
			b, _ := json.Marshal(x)
			sb.Write(b)
		}
	}
	var sb strings.Builder
	w(v, &sb)
	return sb.String()
}

type cliScenario struct {
	name  string
	files map[string]string // relative path -> content
	args  func(root string, abs bool) []string
	outs  []string // output files (relative to the output dir) to collect; "-" = stdout
}

// longNamesSchema: objects nested five deep under long property names, a very long definition name, long enum values.
func longNamesSchema() string {
	name := func(i int) string {
		return fmt.Sprintf("level_%d_with_a_property_name_that_goes_on_and_on_%d", i, i)
	}
	inner := `{"type":"object","properties":{"leaf":{"type":"string","enum":["` + strings.Repeat("a very long enum value ", 12) + `","short"]}}}`
	for i := 5; i >= 1; i-- {
		inner = fmt.Sprintf(`{"type":"object","title":"%s","properties":{"%s":%s,"%s":{"type":"array","items":{"type":"object","properties":{"x":{"type":"integer"}}}}}}`,
			strings.Repeat("Title words ", 6)+fmt.Sprint(i), name(i), inner, name(i)+"_list")
	}
	long := strings.Repeat("DefinitionNameSegment", 15)
	return `{"$id":"https://example.com/schemas/deep","type":"object","properties":{"root":` + inner + `,"d":{"$ref":"#/$defs/` + long + `"}},"$defs":{"` + long + `":{"type":"object","properties":{"p":{"type":"object","properties":{"q":{"type":"string"}}}}}}}`
}

func cliScenarios() []cliScenario {
	a := `{"$id":"https://example.com/schemas/order","type":"object","title":"An Order","properties":{"id":{"type":"string"},"lines":{"type":"array","items":{"$ref":"#/$defs/Line"}},"customer":{"$ref":"customer.json"}},"required":["id"],"$defs":{"Line":{"type":"object","properties":{"sku":{"type":"string"},"qty":{"type":"integer","minimum":1}},"required":["sku"]},"item":{"type":"object","properties":{"a":{"type":"string"}}},"Item":{"type":"object","properties":{"b":{"type":"integer"}}}}}`
	b := `{"$id":"https://example.com/schemas/customer","type":"object","properties":{"name":{"type":"string"},"Name":{"type":"string"},"NAME":{"type":"integer"},"address":{"$ref":"sub/address.json"}},"required":["name"]}`
	c := `{"$id":"https://example.com/schemas/address","type":"object","properties":{"street":{"type":"string"},"kind":{"enum":["home","work",null]},"geo":{"type":"object","properties":{"lat":{"type":"number"},"lon":{"type":"number"}},"additionalProperties":{"type":"string"}}}}`
	files := map[string]string{"order.json": a, "customer.json": b, "sub/address.json": c}
	p := func(root string, abs bool, name string) string {
		if abs {
			return filepath.Join(root, name)
		}
		return name
	}
	return []cliScenario{
		{name: "three files, default output to stdout", files: files,
			args: func(root string, abs bool) []string {
				return []string{"-p", "main", p(root, abs, "order.json"), p(root, abs, "customer.json"), p(root, abs, "sub/address.json")}
			}, outs: []string{"-"}},
		{name: "three files, per-schema packages, outputs and root types (ids also spelled with a trailing #)", files: files,
			args: func(root string, abs bool) []string {
				return []string{"-p", "main", "-o", "OUT/default.go",
					"--schema-package=https://example.com/schemas/order=example.com/m/order", "--schema-output=https://example.com/schemas/order=OUT/order/order.go",
					"--schema-root-type=https://example.com/schemas/order=PurchaseOrder",
					"--schema-package=https://example.com/schemas/order#=example.com/m/other", "--schema-output=https://example.com/schemas/order#=OUT/other/other.go",
					"--schema-root-type=https://example.com/schemas/order#=OtherOrder",
					"--schema-package=https://example.com/schemas/customer=example.com/m/customer", "--schema-output=https://example.com/schemas/customer=OUT/customer/customer.go",
					"--schema-root-type=https://example.com/schemas/address=Addr",
					p(root, abs, "order.json"), p(root, abs, "sub/address.json")}
			}, outs: []string{"default.go", "order/order.go", "customer/customer.go", "other/other.go"}},
		{name: "extension-less references with several candidate files (--resolve-extension order decides)",
			files: map[string]string{
				"root.json":      `{"$id":"https://example.com/schemas/root","type":"object","properties":{"t":{"$ref":"thing"},"u":{"$ref":"sub/other"},"v":{"$ref":"thing#/$defs/Inner"}}}`,
				"thing.json":     `{"$id":"https://example.com/schemas/thing-json","type":"object","properties":{"code":{"type":"integer"}},"$defs":{"Inner":{"type":"object","properties":{"j":{"type":"string"}}}}}`,
				"thing.yaml":     "$id: https://example.com/schemas/thing-yaml\ntype: object\nproperties:\n  label:\n    type: string\n$defs:\n  Inner:\n    type: object\n    properties:\n      y:\n        type: boolean\n",
				"thing.yml":      "$id: https://example.com/schemas/thing-yml\ntype: object\nproperties:\n  other:\n    type: number\n$defs:\n  Inner:\n    type: object\n    properties:\n      m:\n        type: number\n",
				"sub/other.yaml": "$id: https://example.com/schemas/other-yaml\ntype: object\nproperties:\n  oy:\n    type: string\n",
				"sub/other.json": `{"$id":"https://example.com/schemas/other-json","type":"object","properties":{"oj":{"type":"integer"}}}`,
			},
			args: func(root string, abs bool) []string {
				return []string{"-p", "main", "--resolve-extension", ".yml", "--resolve-extension", ".yaml", "--resolve-extension", ".json", p(root, abs, "root.json")}
			}, outs: []string{"-"}},
		// size-triggered paths: type names far beyond any golden (objects nested five deep under 40-character property
		// names, a 300-character definition name, long enum values and titles), in separate processes
		{name: "very long nested names", files: map[string]string{"deep.json": longNamesSchema()},
			args: func(root string, abs bool) []string {
				return []string{"-p", "main", "-t", p(root, abs, "deep.json")}
			}, outs: []string{"-"}},
		{name: "one file with options", files: files,
			args: func(root string, abs bool) []string {
				return []string{"-p", "main", "-e", "-t", "--min-sized-ints", "--capitalization", "ID,SKU", "--tags", "json,yaml", p(root, abs, "order.json")}
			}, outs: []string{"-"}},
	}
}

func runCLIKey(bin, cwd, outDir string, args []string, outs []string) (bool, string, string) {
	for i, a := range args {
		args[i] = strings.ReplaceAll(a, "OUT", outDir)
	}
	ctx, cancel := context.WithTimeout(context.Background(), 30*time.Second)
	defer cancel()
	cmd := exec.CommandContext(ctx, bin, args...)
	cmd.Dir = cwd
	var so, se bytes.Buffer
	cmd.Stdout, cmd.Stderr = &so, &se
	if err := cmd.Run(); err != nil {
		return false, "", firstLine(se.String())
	}
	h := sha256.New()
	for _, o := range outs {
		var b []byte
		if o == "-" {
			b = so.Bytes()
		} else {
			b, _ = os.ReadFile(filepath.Join(outDir, o))
		}
		fmt.Fprintf(h, "%s\x00%d\x00", o, len(b))
		h.Write(b)
	}
	return true, hex.EncodeToString(h.Sum(nil))[:24], ""
}

// RunDeterminism performs one run of the C12 check.
func RunDeterminism(fam *Family, tier, rule string) int {
	prop := "C12"
	t0 := time.Now()
	seed := Seed()
	rng := rand.New(rand.NewSource(seed))
	fnd, err := LoadFindings()
	if err != nil {
		return infra(prop, err)
	}
	devs := fnd.OpenDevs()
	sc, err := work.New(prop)
	if err != nil {
		return infra(prop, err)
	}
	defer sc.Close()
	if err := sc.InitModule(); err != nil {
		return infra(prop, err)
	}
	bin, err := sc.BuildCLI()
	if err != nil {
		return infra(prop, err)
	}
	cfg := "SPECIFICATION Spec\nCONSTANTS\n  Schemas <- SchemasDef\n  MapIds <- MapIdsDef\n  PkgOf <- PkgOfDef\n  OutOf <- OutOfDef\n  Props <- PropsDef\n  Exts <- ExtsDef\n  Cands <- CandsDef\n  D = {}\nINVARIANT OrderIndependent\nCHECK_DEADLOCK FALSE\n"
	mc, err := tlc.Run(tlc.Opts{Module: "MC_MapOrder", Cfg: cfg, Dir: filepath.Join(sc.Dir, "tlc-mo"), Workers: 4, Timeout: 5 * time.Minute, HeapGB: 2, Coverage: true})
	if err != nil {
		return infra(prop, err)
	}
	if mc.Failed || mc.InvViolated != "" {
		return infra(prop, fmt.Errorf("MapOrder model violates OrderIndependent\n%s", mc.Tail))
	}
	if _, err := vacuity(prop, mc.Actions); err != nil {
		return infra(prop, err)
	}
	units, mcu, err := Enumerate(fam, sc, devs, tier)
	if err != nil {
		return infra(prop, err)
	}
	mc.Distinct += mcu.Distinct
	mc.Generated += mcu.Generated
	nLib, nPerm, nCLI := 8, 6, 3
	if tier == "thorough" {
		nLib, nPerm, nCLI = 32, 24, 8
	}
	var evs []*eqEvent
	for _, u := range units {
		text, err := unitSchema(u, nil)
		if err != nil {
			return infra(prop, err)
		}
		cfg := u.Opts()
		cfg.DefaultPackageName = "main"
		cfg.DefaultOutputName = "out.go"
		e := &eqEvent{Class: "unit " + firstLine(text)}
		for i := 0; i < nLib; i++ {
			e.Variants = append(e.Variants, &eqVariant{Desc: fmt.Sprintf("in-process run %d", i+1), files: map[string]string{"root.json": text}, entry: []string{"root.json"}, cfg: cfg})
		}
		for i := 0; i < nPerm; i++ {
			e.Variants = append(e.Variants, &eqVariant{Desc: fmt.Sprintf("key permutation %d", i+1), files: map[string]string{"root.json": shuffled(text, rng)}, entry: []string{"root.json"}, cfg: cfg})
		}
		evs = append(evs, e)
	}
	if err := runEq(sc, evs); err != nil {
		return infra(prop, err)
	}
	// CLI scenarios: separate processes, relocation, relative / absolute arguments, key permutations
	for si, s := range cliScenarios() {
		e := &eqEvent{Class: "cli: " + s.name}
		k := 0
		firstOut := ""
		stale := false // the next variant finds every output file already there, longer than what will be written
		variant := func(desc, root string, abs bool, files map[string]string) {
			k++
			for name, content := range files {
				p := filepath.Join(root, name)
				_ = os.MkdirAll(filepath.Dir(p), 0o755)
				_ = os.WriteFile(p, []byte(content), 0o644)
			}
			out := filepath.Join(sc.Dir, "cliout", fmt.Sprintf("s%d-v%d", si, k))
			_ = os.MkdirAll(out, 0o755)
			if k == 1 {
				firstOut = out
			}
			if stale {
				for _, o := range s.outs {
					// (only where the run writes a file at all: the first variant shows which)
					if _, err := os.Stat(filepath.Join(firstOut, o)); o != "-" && err == nil {
						p := filepath.Join(out, o)
						_ = os.MkdirAll(filepath.Dir(p), 0o755)
						_ = os.WriteFile(p, []byte("// left by an earlier run\npackage stale\n"+strings.Repeat("// padding padding padding padding\n", 4000)), 0o644)
					}
				}
				stale = false
			}
			ok, key, errs := runCLIKey(bin, root, out, s.args(root, abs), s.outs)
			e.Variants = append(e.Variants, &eqVariant{Desc: desc, OK: ok, Key: key, err: errs, files: files})
		}
		base := filepath.Join(sc.Dir, "cli", fmt.Sprintf("s%d", si), "here")
		for i := 0; i < nCLI; i++ {
			variant(fmt.Sprintf("process %d, relative arguments", i+1), base, false, s.files)
		}
		variant("absolute arguments", base, true, s.files)
		stale = true
		variant("output files left by an earlier, longer run are in the way", base, false, s.files)
		moved := filepath.Join(sc.Dir, "cli", fmt.Sprintf("s%d", si), "a", "very", "different", "place")
		variant("schema directory moved, relative arguments", moved, false, s.files)
		variant("schema directory moved, absolute arguments", moved, true, s.files)
		// directory names with characters that mean something in URLs, file names or shells: the path of the schema
		// directory must not leak into the output whatever it looks like
		for hi, hostile := range []string{"rev#2", "is it final?", "v1.2.json", "ünï çødé", "50%20off", "a=b&c"} {
			hdir := filepath.Join(sc.Dir, "cli", fmt.Sprintf("s%d", si), "hostile", fmt.Sprintf("%d", hi), hostile, "schemas")
			variant(fmt.Sprintf("schema directory moved below %q, absolute arguments", hostile), hdir, true, s.files)
			if hi < 2 {
				variant(fmt.Sprintf("schema directory moved below %q, relative arguments", hostile), hdir, false, s.files)
			}
		}
		for i := 0; i < nPerm; i++ {
			pf := map[string]string{}
			for n, c := range s.files {
				pf[n] = shuffled(c, rng)
			}
			variant(fmt.Sprintf("key permutation %d", i+1), filepath.Join(sc.Dir, "cli", fmt.Sprintf("s%d", si), fmt.Sprintf("perm%d", i)), false, pf)
		}
		evs = append(evs, e)
	}
	return finishEq(prop, tier, seed, rule, sc, evs, mc, devs, fnd, t0)
}
