package rt

import (
	"encoding/json"
	"fmt"
	"math/rand"
	"sort"
	"strings"
	"sync"

	"gopkg.in/yaml.v3"

	"verif/harness/internal/tlc"
	"verif/harness/internal/work"
)

// Re-spelling of BORROWED units for C13. The switches are those of spec/MC_C13.tla (lid, ldefs, lref, uref, tlist,
// tsub, both; ldeps has nothing to act on in the borrowed families); MC_C13 checks on its own shapes that the
// parser's normal form does not depend on them. Here the same switches are applied, by a schema-aware walk over
// the concrete JSON text of a unit the specification of ANOTHER family enumerated (references, definitions,
// allOf / anyOf, arrays, typed maps, defaults, enums, two-document layouts), and the real generator must emit
// byte-identical code for every spelling of one unit (judged by Trace_EQ). The walk is a printer table like the
// YAML renderer: it rewrites keywords only at schema positions, never inside enum / default / required /
// property names.

type spellSet map[string]bool

var spellSwitches = []string{"lid", "ldefs", "lref", "uref", "tlist", "tsub", "both"}

func isEmptyObj(v any) bool { m, ok := v.(map[string]any); return ok && len(m) == 0 }

func respellRef(ref string, f spellSet) string {
	i := strings.IndexByte(ref, '#')
	if i < 0 {
		return ref
	}
	frag := ref[i+1:]
	for _, p := range []string{"/$defs/", "/definitions/"} {
		if strings.HasPrefix(frag, p) {
			np := "/$defs/"
			if f["lref"] {
				np = "/definitions/"
			}
			if f["uref"] {
				np = strings.ToUpper(np)
			}
			return ref[:i+1] + np + frag[len(p):]
		}
	}
	return ref
}

func respellSchema(v any, f spellSet) any {
	m, ok := v.(map[string]any)
	if !ok {
		return v
	}
	out := map[string]any{}
	sub := func(x any, allowTrue bool) any {
		if allowTrue && f["tsub"] && isEmptyObj(x) {
			return true
		}
		return respellSchema(x, f)
	}
	subMap := func(x any, allowTrue bool) any {
		mm, ok := x.(map[string]any)
		if !ok {
			return x
		}
		o := map[string]any{}
		for k, val := range mm {
			o[k] = sub(val, allowTrue)
		}
		return o
	}
	put2 := func(cur, leg string, useLeg bool, val any) {
		switch {
		case f["both"]:
			out[cur], out[leg] = val, val
		case useLeg:
			out[leg] = val
		default:
			out[cur] = val
		}
	}
	for k, val := range m {
		switch k {
		case "type":
			if s, ok := val.(string); ok && f["tlist"] {
				out[k] = []any{s}
			} else {
				out[k] = val
			}
		case "$id":
			put2("$id", "id", f["lid"], val)
		case "$defs":
			put2("$defs", "definitions", f["ldefs"], subMap(val, false))
		case "properties":
			out[k] = subMap(val, true)
		case "patternProperties", "dependentSchemas":
			out[k] = subMap(val, false)
		case "items", "additionalProperties":
			out[k] = sub(val, true)
		case "not":
			out[k] = sub(val, false)
		case "allOf", "anyOf", "oneOf":
			if l, ok := val.([]any); ok {
				o := make([]any, len(l))
				for i := range l {
					o[i] = sub(l[i], false)
				}
				out[k] = o
			} else {
				out[k] = val
			}
		case "$ref":
			if s, ok := val.(string); ok {
				out[k] = respellRef(s, f)
			} else {
				out[k] = val
			}
		default:
			out[k] = val
		}
	}
	return out
}

func decodeNum(text string) (any, error) {
	var v any
	dec := json.NewDecoder(strings.NewReader(text))
	dec.UseNumber()
	err := dec.Decode(&v)
	return v, err
}

func jsonText(v any) string {
	b, _ := json.MarshalIndent(v, "", "  ")
	return string(b)
}

func yamlBlock(v any) (string, error) {
	// a deep copy: plainNumbers rewrites in place
	c, err := decodeNum(jsonText(v))
	if err != nil {
		return "", err
	}
	b, err := yaml.Marshal(plainNumbers(c))
	return string(b), err
}

// hasBigOrOddNumber: numerals a YAML printer would not write the way JSON does (beyond int64 / exponent forms)
// are left to the JSON variants.
func yamlSafe(v any) bool {
	switch x := v.(type) {
	case json.Number:
		if _, err := x.Int64(); err == nil {
			return true
		}
		s := x.String()
		return len(s) < 12 && !strings.ContainsAny(s, "eE")
	case []any:
		for _, e := range x {
			if !yamlSafe(e) {
				return false
			}
		}
	case map[string]any:
		for _, e := range x {
			if !yamlSafe(e) {
				return false
			}
		}
	}
	return true
}

// borrowedSpellingClasses builds one equivalence class per borrowed unit.
func borrowedSpellingClasses(sc *work.Scratch, devs []string, tier string, rng *rand.Rand) ([]*eqEvent, *tlc.Result, int, error) {
	type src struct {
		module string
		cfg    func(string) string
		keep   func(*Unit) bool
		q, t   float64
	}
	tierCfg := func(t string) string { return "  Tier = \"" + t + "\"\n" }
	srcs := []src{
		{"MC_C10", tierCfg, nil, 0.25, 1},
		{"MC_C04", nil, nil, 0.25, 1},
		{"MC_C03", nil, nil, 0.25, 1},
		{"MC_C09", nil, nil, 0.5, 1},
		{"MC_C11", nil, nil, 0.03, 0.3},
		{"MC_C07", tierCfg, nil, 0.02, 0.2},
		{"MC_C08", nil, nil, 0.03, 0.3},
	}
	agg := &tlc.Result{}
	var evs []*eqEvent
	nUnits := 0
	type enumOut struct {
		us  []*Unit
		r   *tlc.Result
		err error
	}
	outs := make([]enumOut, len(srcs))
	var wg sync.WaitGroup
	for i, s := range srcs {
		wg.Add(1)
		go func(i int, s src) {
			defer wg.Done()
			outs[i].us, outs[i].r, outs[i].err = enumerateKeep(s.module, s.cfg, sc, devs, "quick", "-sp", "", s.keep)
		}(i, s)
	}
	wg.Wait()
	for i, s := range srcs {
		us, r, err := outs[i].us, outs[i].r, outs[i].err
		if err != nil {
			return nil, nil, 0, err
		}
		agg.Generated += r.Generated
		agg.Distinct += r.Distinct
		frac := s.q
		if tier == "thorough" {
			frac = s.t
		}
		for _, u := range us {
			if rng.Float64() >= frac {
				continue
			}
			if nb, _ := u.Raw["nobuild"].([]any); len(nb) > 0 {
				continue
			}
			// a document that holds DIFFERENT entries under `$defs` and `definitions` has no legacy spelling
			if dl, _ := u.Raw["defs"].([]any); len(dl) > 0 {
				if ll, _ := u.Raw["ldefs"].([]any); len(ll) > 0 {
					continue
				}
			}
			root, err := unitSchema(u, unitRen(u))
			if err != nil {
				return nil, nil, 0, err
			}
			files, entry := map[string]string{"root.json": root}, "root.json"
			cfg := u.Opts()
			cfg.DefaultPackageName, cfg.DefaultOutputName = "main", "out.go"
			multi := false
			if fs, en, exts, ok, err := unitFiles(u, root); err != nil {
				return nil, nil, 0, err
			} else if ok {
				files, entry, multi = fs, en, true
				cfg.ResolveExtensions = exts
				cfg.YAMLExtensions = []string{".yml", ".yaml"}
			} else {
				// the root type is named after the file without a known extension: the same under both names
				cfg.ResolveExtensions = []string{".json", ".yaml"}
			}
			// parse every JSON document of the unit (YAML documents of a layout stay as they are)
			parsed := map[string]any{}
			for n, t := range files {
				if strings.HasSuffix(n, ".json") || !strings.Contains(n, ".") {
					if v, err := decodeNum(t); err == nil {
						parsed[n] = v
					}
				}
			}
			if len(parsed) == 0 {
				continue
			}
			// a seeded third of the units carries a `$schema` keyword at the root (old / current draft): the spellings of
			// ONE document must not be told apart by the draft it names
			if m, ok := parsed[entry].(map[string]any); ok {
				switch rng.Intn(3) {
				case 0:
					m["$schema"] = "https://json-schema.org/draft/2020-12/schema"
				case 1:
					if rng.Intn(2) == 0 {
						m["$schema"] = "http://json-schema.org/draft-04/schema#"
					}
				}
			}
			render := func(f spellSet) map[string]string {
				o := map[string]string{}
				for n, t := range files {
					if v, ok := parsed[n]; ok {
						o[n] = jsonText(respellSchema(v, f))
					} else {
						o[n] = t
					}
				}
				return o
			}
			same := func(a, b map[string]string) bool {
				for k := range a {
					if a[k] != b[k] {
						return false
					}
				}
				return true
			}
			canon := render(spellSet{})
			var applicable []string
			for _, sw := range spellSwitches {
				if sw == "uref" { // changes the text only together with a reference
					if !same(render(spellSet{"uref": true}), canon) {
						applicable = append(applicable, sw)
					}
					continue
				}
				if !same(render(spellSet{sw: true}), canon) {
					applicable = append(applicable, sw)
				}
			}
			if len(applicable) == 0 {
				continue
			}
			var sets []spellSet
			for _, sw := range applicable {
				sets = append(sets, spellSet{sw: true})
			}
			all := spellSet{}
			for _, sw := range applicable {
				all[sw] = true
			}
			sets = append(sets, all)
			extra := 3
			if tier == "thorough" {
				extra = 12
			}
			for k := 0; k < extra && len(applicable) > 2; k++ {
				s := spellSet{}
				for _, sw := range applicable {
					if rng.Intn(2) == 0 {
						s[sw] = true
					}
				}
				if len(s) > 0 {
					sets = append(sets, s)
				}
			}
			e := &eqEvent{Class: fmt.Sprintf("%s unit %d: %s", s.module, u.Idx, firstLine(strings.Join(strings.Fields(root), " ")))}
			e.Variants = append(e.Variants, &eqVariant{Desc: "json {} (as enumerated)", files: canon, entry: []string{entry}, cfg: cfg})
			seen := map[string]bool{}
			for _, f := range sets {
				var names []string
				for sw := range f {
					names = append(names, sw)
				}
				sort.Strings(names)
				desc := "{" + strings.Join(names, ",") + "}"
				if seen[desc] {
					continue
				}
				seen[desc] = true
				fs := render(f)
				if same(fs, canon) {
					continue
				}
				e.Variants = append(e.Variants, &eqVariant{Desc: "json " + desc, files: fs, entry: []string{entry}, cfg: cfg})
				if !multi && yamlSafe(parsed[entry]) {
					// the single document also as block YAML and as flow YAML (the JSON text itself), under a YAML name
					if yb, err := yamlBlock(respellSchema(parsed[entry], f)); err == nil {
						ycfg := cfg
						ycfg.YAMLExtensions = []string{".yaml"}
						e.Variants = append(e.Variants,
							&eqVariant{Desc: "yaml-block " + desc, files: map[string]string{"root.yaml": yb}, entry: []string{"root.yaml"}, cfg: ycfg},
							&eqVariant{Desc: "yaml-flow " + desc, files: map[string]string{"root.yaml": fs[entry]}, entry: []string{"root.yaml"}, cfg: ycfg})
					}
				}
			}
			if len(e.Variants) > 1 {
				evs = append(evs, e)
				nUnits++
			}
		}
	}
	return evs, agg, nUnits, nil
}
