package rt

import (
	"encoding/json"
	"fmt"
	"go/ast"
	"go/parser"
	"go/token"
	"math/rand"
	"os"
	"path/filepath"
	"reflect"
	"strings"

	"verif/harness/internal/work"
)

// Recursion part of C10: graph units of spec/MC_C10R.tla.

type graphResult struct {
	states, transitions                        int64
	events, units, programs, known, violations int
	evaluations, nontrivial                    int64
	knownSeen                                  map[string]int
	vlines                                     []string
	samples                                    []any
	coverage                                   map[string]any
	rule                                       string
	summary                                    string
}

type gEdge struct {
	To   string `json:"to"`
	Via  string `json:"via"`
	Name string `json:"name"`
}

func unitEdges(u *Unit) map[string][]gEdge {
	out := map[string][]gEdge{}
	l, _ := u.Raw["edges"].([]any)
	for _, x := range l {
		m, _ := x.(map[string]any)
		b, _ := json.Marshal(m["e"])
		var es []gEdge
		_ = json.Unmarshal(b, &es)
		k, _ := m["k"].(string)
		out[k] = es
	}
	return out
}

// cyclePath finds, by depth-first search from A, a path to a definition on a cycle and the cycle itself.
func cyclePath(edges map[string][]gEdge) (prefix, cycle []gEdge, ok bool) {
	var path []gEdge
	onPath := map[string]int{"A": 0}
	var dfs func(d string) bool
	dfs = func(d string) bool {
		for _, e := range edges[d] {
			if i, seen := onPath[e.To]; seen {
				all := append(append([]gEdge{}, path...), e)
				prefix, cycle = all[:i], all[i:]
				return true
			}
			onPath[e.To] = len(path) + 1
			path = append(path, e)
			if dfs(e.To) {
				return true
			}
			path = path[:len(path)-1]
			delete(onPath, e.To)
		}
		return false
	}
	ok = dfs("A")
	return
}

func deepDoc(prefix, cycle []gEdge, depth int, wrap bool) string {
	var open, close strings.Builder
	var closers []string
	put := func(e gEdge) {
		if e.Via == "prop" || e.Via == "allof" {
			fmt.Fprintf(&open, `{"%s":`, e.Name)
			closers = append(closers, "}")
		} else {
			fmt.Fprintf(&open, `{"%s":[`, e.Name)
			closers = append(closers, "]}")
		}
	}
	n := 0
	for _, e := range prefix {
		put(e)
		n++
	}
	for n < depth {
		for _, e := range cycle {
			put(e)
			n++
			if n >= depth {
				break
			}
		}
	}
	for i := len(closers) - 1; i >= 0; i-- {
		close.WriteString(closers[i])
	}
	if !wrap {
		return open.String() + `{"v":1}` + close.String()
	}
	return `{"a":` + open.String() + `{"v":1}` + close.String() + `}`
}

func declaredTypes(path string) []string {
	fset := token.NewFileSet()
	file, err := parser.ParseFile(fset, path, nil, 0)
	if err != nil {
		return []string{}
	}
	out := []string{}
	for _, d := range file.Decls {
		gd, ok := d.(*ast.GenDecl)
		if !ok || gd.Tok != token.TYPE {
			continue
		}
		for _, sp := range gd.Specs {
			if ts, ok := sp.(*ast.TypeSpec); ok {
				out = append(out, ts.Name.Name)
			}
		}
	}
	return out
}

func sameJSON(a, b string) bool {
	var x, y any
	if json.Unmarshal([]byte(a), &x) != nil || json.Unmarshal([]byte(b), &y) != nil {
		return false
	}
	return reflect.DeepEqual(x, y)
}

type graphEvent struct {
	Unit  map[string]any   `json:"unit"`
	Gen   string           `json:"gen"`
	Built bool             `json:"built"`
	Decls []string         `json:"decls"`
	Deep  []map[string]any `json:"deep"`
}

func runRefGraphs(sc *work.Scratch, devs []string, tier string) (*graphResult, int) {
	prop := "C10"
	g := &graphResult{knownSeen: map[string]int{}, coverage: map[string]any{}}
	g.rule = "graphs = EVERY graph on 2 definitions (81) and, in the thorough tier, on 3 definitions (4096; quick: a seeded 6%) in which each definition has an optional reference property p and an optional array-of-references property q to any definition; documents = every document that follows the graph's edges to depth 3 (2 for three definitions; thorough: 4 and 3) with a valid, an invalid or no leaf value, plus, for cyclic graphs, documents nested 200 and 10001 levels along a cycle"
	seed := Seed()
	rng := rand.New(rand.NewSource(seed + 10))
	var units []*Unit
	for _, n := range []int{2, 3} {
		fam := &Family{Prop: prop, Module: "MC_C10R", PackSize: 1, Judge: "value",
			ExtraCfg: func(t string) string { return fmt.Sprintf("  Tier = \"%s\"\n  NDefs = %d\n  RD = {}\n", t, n) }}
		us, mc, err := enumerateOneProps(fam.Module, fam.ExtraCfg, sc, devs, tier, fmt.Sprintf("n%d", n), "PROPERTY Terminates\n")
		if err != nil {
			return g, infra(prop, err)
		}
		g.states += mc.Distinct
		g.transitions += mc.Generated
		g.units += len(us)
		for _, u := range us {
			if n == 3 && tier != "thorough" && rng.Float64() >= 0.06 {
				continue
			}
			units = append(units, u)
		}
	}
	if len(units) == 0 {
		return g, infra(prop, fmt.Errorf("TLC enumerated no graph units"))
	}
	return judgeGraphUnits(sc, devs, units, g)
}

// judgeGraphUnits executes graph units on the real code and has TLC judge them (Trace_RT for the documents,
// Trace_C10R for termination, declarations and deep documents).
func judgeGraphUnits(sc *work.Scratch, devs []string, units []*Unit, g *graphResult) (*graphResult, int) {
	prop := "C10"
	seed := Seed()
	// execution units: the TLC documents followed by the deep documents (raw text)
	execUnits := make([]*Unit, len(units))
	ndeep := make([]int, len(units))
	deepN := make([][]int, len(units))
	for i, u := range units {
		raw := map[string]any{}
		for k, v := range u.Raw {
			raw[k] = v
		}
		docs := append([]any{}, u.Docs()...)
		cyc, _ := u.Raw["cyclic"].(bool)
		prefix, cycle, ok := cyclePath(unitEdges(u))
		if ok != cyc {
			return g, infra(prop, fmt.Errorf("harness and specification disagree on whether a graph is cyclic: %v", u.Raw["edges"]))
		}
		if ok {
			for _, n := range []int{200, 10001} {
				wrap := true
				if w, has := u.Raw["wrap"].(bool); has {
					wrap = w
				}
				docs = append(docs, map[string]any{"t": "raw", "x": deepDoc(prefix, cycle, n, wrap)})
				deepN[i] = append(deepN[i], n)
			}
			ndeep[i] = 2
		}
		raw["docs"] = docs
		execUnits[i] = &Unit{Idx: i, Raw: raw}
	}
	fam := &Family{Prop: prop, Module: "MC_C10R", PackSize: 1, Judge: "value"}
	execs, err := Execute(fam, sc, "g", execUnits, 1)
	if err != nil {
		return g, infra(prop, err)
	}
	var rtEvents []*obsEvent
	var rtExec []*Exec
	var gEvents []any
	for i, e := range execs {
		ge := &graphEvent{Unit: map[string]any{"gonames": units[i].Raw["gonames"], "cyclic": units[i].Raw["cyclic"], "allofcycle": units[i].Raw["allofcycle"]}, Gen: "ok", Decls: []string{}, Deep: []map[string]any{}}
		switch {
		case e.GenDead:
			ge.Gen = "dead"
		case e.GenErr != "":
			ge.Gen = "err"
		}
		if ge.Gen == "ok" && e.Built {
			ge.Built = true
			ge.Decls = declaredTypes(e.Source)
			nd := len(units[i].Docs())
			if e.Out != nil && len(e.Out.Res) == nd+ndeep[i] {
				for k := 0; k < ndeep[i]; k++ {
					r := e.Out.Res[nd+k]
					ge.Deep = append(ge.Deep, map[string]any{"n": deepN[i][k], "err": r.Err, "panic": r.Panic, "same": !r.Err && !r.Panic && sameJSON(e.Texts[nd+k], r.Out)})
				}
				// the ordinary documents go to Trace_RT with the unit as TLC emitted it
				e2 := *e
				e2.Unit = units[i]
				e2.Texts = e.Texts[:nd]
				o2 := *e.Out
				o2.Res = e.Out.Res[:nd]
				e2.Out = &o2
				if ev, _ := Observation(&e2, false); ev != nil {
					rtEvents = append(rtEvents, ev)
					rtExec = append(rtExec, &e2)
				}
			}
		}
		gEvents = append(gEvents, ge)
	}
	g.programs = len(execs)
	reps, tally, tr, err := Validate(fam, sc, "gv", rtEvents, devs)
	if err != nil {
		return g, infra(prop, err)
	}
	greps, gtally, gtr, err := ValidateWith(sc, "gg", "Trace_C10R", "  Devs = "+devSet(devs)+"\n", nil, gEvents)
	if err != nil {
		return g, infra(prop, err)
	}
	g.states += tr.Distinct + gtr.Distinct
	g.transitions += tr.Generated + gtr.Generated
	g.events = len(rtEvents) + len(gEvents)
	g.evaluations = tally.Ok + tally.Un + tally.Known + tally.Viol + int64(len(gEvents))
	g.nontrivial = tally.Acc + tally.Rej + gtally.Acc
	g.known = int(tally.Known + gtally.Known)
	g.knownSeen["RecursiveAllOfUnsupported"] += int(gtally.Known)
	dir := filepath.Join(Home(), "replay", prop)
	_ = os.MkdirAll(dir, 0o755)
	write := func(name string, rp map[string]any) {
		p := filepath.Join(dir, name)
		b, _ := json.MarshalIndent(rp, "", " ")
		if os.WriteFile(p, append(b, '\n'), 0o644) == nil && len(g.vlines) < 10 {
			g.vlines = append(g.vlines, fmt.Sprintf("VIOLATION property=%s replay=%s", prop, p))
		}
	}
	seen := map[[2]int]bool{}
	for _, r := range reps {
		if seen[[2]int{r.L, r.I}] {
			continue
		}
		seen[[2]int{r.L, r.I}] = true
		switch r.Class {
		case "known":
			for _, d := range r.Devs {
				g.knownSeen[d]++
			}
		case "violation":
			g.violations++
			e := rtExec[r.L-1]
			rp := map[string]any{"property": prop, "kind": "graph-document/" + r.Kind, "graph_unit": e.Unit.Raw, "schema_text": e.Schema, "doc_index": r.I,
				"expected": r.Ref, "observed": r.Obs, "model": r.Impl, "how_to_rerun": "bin/vcheck replay C10 <this file>"}
			if r.I >= 1 && r.I <= len(e.Texts) {
				rp["document_text"] = e.Texts[r.I-1]
				rp["result"] = e.Out.Res[r.I-1]
			}
			write(fmt.Sprintf("seed%d-graph%d-doc%d.json", seed, e.Unit.Idx, r.I), rp)
		}
	}
	for _, r := range greps {
		if r.Class != "violation" {
			continue
		}
		g.violations++
		e := execs[r.L-1]
		write(fmt.Sprintf("seed%d-graph%d-walk.json", seed, e.Unit.Idx), map[string]any{"property": prop, "kind": "graph", "graph_unit": units[r.L-1].Raw,
			"schema_text": e.Schema, "expected": r.Ref, "observed": r.Obs, "generation_error": firstLine(e.GenErr), "build_error": firstLine(e.BuildErr),
			"how_to_rerun": "bin/vcheck replay C10 <this file>"})
	}
	cyclic := 0
	for _, u := range units {
		if c, _ := u.Raw["cyclic"].(bool); c {
			cyclic++
		}
	}
	if len(execs) > 0 {
		k := len(execs) / 2
		g.samples = append(g.samples, map[string]any{"graph": units[k].Raw["edges"], "schema": execs[k].Schema, "documents": len(units[k].Docs()), "cyclic": units[k].Raw["cyclic"]})
	}
	g.coverage = map[string]any{"graphs_enumerated_by_tlc": g.units, "graphs_replayed": len(units), "cyclic_graphs_replayed": cyclic,
		"document_events_ok": tally.Ok, "document_events_unspecified": tally.Un, "document_events_known": tally.Known, "document_violations": tally.Viol,
		"graph_events_ok": gtally.Ok, "graph_violations": gtally.Viol, "deep_documents": gtally.Acc}
	g.summary = fmt.Sprintf("recursion: TLC checked the generator's walk (Terminates, OncePerDef, AllDeclared, ScopeEmpty) and emitted %d graph units (each graph as definitions and as files); %d units (%d cyclic) replayed: documents ok=%d unspecified=%d known=%d violations=%d, graph events ok=%d violations=%d",
		g.units, len(units), cyclic, tally.Ok, tally.Un, tally.Known, tally.Viol, gtally.Ok, gtally.Viol)
	return g, 0
}
