package rt

import (
	"crypto/sha256"
	"encoding/hex"
	"encoding/json"
	"fmt"
	"math/rand"
	"os"
	"path/filepath"
	"regexp"
	"sort"
	"strings"
	"time"

	"gopkg.in/yaml.v3"

	"verif/harness/internal/tlc"
	"verif/harness/internal/work"
)

type eqVariant struct {
	Desc string `json:"desc"`
	OK   bool   `json:"ok"`
	Key  string `json:"key"`
	Dev  string `json:"dev"`
	// not part of the event
	files map[string]string
	cfg   work.Cfg
	entry []string
	err   string
	job   string
}

type eqEvent struct {
	Class    string       `json:"class"`
	Variants []*eqVariant `json:"variants"`
}

func outputKey(outputs map[string]string) string {
	names := make([]string, 0, len(outputs))
	for n := range outputs {
		names = append(names, n)
	}
	sort.Strings(names)
	h := sha256.New()
	for _, n := range names {
		b, _ := os.ReadFile(outputs[n])
		fmt.Fprintf(h, "%s\x00%d\x00", filepath.Base(n), len(b))
		h.Write(b)
	}
	return hex.EncodeToString(h.Sum(nil))[:24]
}

// runEq generates every variant and fills OK / Key.
func runEq(sc *work.Scratch, events []*eqEvent) error {
	var jobs []work.GenJob
	byID := map[string]*eqVariant{}
	n := 0
	for _, e := range events {
		for _, v := range e.Variants {
			id := fmt.Sprintf("q%06d", n)
			n++
			v.job = id
			byID[id] = v
			jobs = append(jobs, work.GenJob{ID: id, Dir: filepath.Join(sc.Dir, "in", id), Files: v.files, Entries: v.entry,
				OutDir: filepath.Join(sc.Dir, "eqout", id), Cfg: v.cfg})
		}
	}
	res, err := sc.Generate(jobs)
	if err != nil {
		return err
	}
	for id, v := range byID {
		r := res[id]
		if r == nil {
			v.err = "no result"
			continue
		}
		if !r.OK {
			v.err = r.Err + r.Panic
			continue
		}
		v.OK = true
		v.Key = outputKey(r.Outputs)
	}
	return nil
}

// spelled turns the text-level record emitted by MC_C13 into a plain JSON value.
func spelled(v any, rename map[string]string) any {
	switch x := v.(type) {
	case map[string]any:
		if len(x) == 1 {
			if s, ok := x["s"]; ok {
				return s
			}
			if l, ok := x["l"]; ok {
				return l
			}
			if b, ok := x["b"]; ok {
				return b
			}
			if _, ok := x["empty"]; ok {
				return map[string]any{}
			}
		}
		if p, ok := x["prefix"].(string); ok && len(x) == 2 {
			name, _ := x["name"].(string)
			if r, ok := rename[name]; ok {
				name = r
			}
			return "#" + p + name
		}
		m := map[string]any{}
		for k, val := range x {
			key := k
			if r, ok := rename[k]; ok {
				key = r
			}
			m[key] = spelled(val, rename)
		}
		return m
	case []any:
		out := make([]any, len(x))
		for i := range x {
			out[i] = spelled(x[i], rename)
		}
		return out
	}
	if str, ok := v.(string); ok {
		if t, ok := spelledTexts[str]; ok {
			return t
		}
	}
	return v
}

// texts the specification names by ASCII ids (SANY strings are ASCII)
var spelledTexts = map[string]string{
	"t_desc":  "café au lait — naïve, 日本語 and a\ttab",
	"t_pat":   "^[\u0400-\u04ff]+é$",
	"t_cafe":  "café noir",
	"t_naive": "naïve",
	"t_plain": "plain",
}

// escapedNonASCII rewrites JSON text so that every non-ASCII character is a \uXXXX escape (surrogate pairs beyond
// the BMP): the same document for a JSON parser, and for a YAML parser reading it as flow style with double-quoted
// scalars.
func escapedNonASCII(text string) string {
	var b strings.Builder
	for _, r := range text {
		switch {
		case r < 0x80:
			b.WriteRune(r)
		case r > 0xffff:
			r -= 0x10000
			fmt.Fprintf(&b, "\\u%04x\\u%04x", 0xd800+(r>>10), 0xdc00+(r&0x3ff))
		default:
			fmt.Fprintf(&b, "\\u%04x", r)
		}
	}
	return b.String()
}

var reQuotedKey = regexp.MustCompile(`"(1|2|true|null|1\.5)":`)

// RunSpellings performs one run of the C13 check.
func RunSpellings(tier, rule string) int {
	prop := "C13"
	t0 := time.Now()
	seed := Seed()
	fnd, err := LoadFindings()
	if err != nil {
		return infra(prop, err)
	}
	devs := fnd.OpenDevs()
	sc, err := work.New(prop)
	if err != nil {
		return infra(prop, err)
	}
	defer sc.Close()
	if err := sc.InitModule(); err != nil {
		return infra(prop, err)
	}
	cfg := "SPECIFICATION Spec\nCONSTANTS\n  UnitsFile = \"stdout\"\nINVARIANTS Inv Emit\nCHECK_DEADLOCK FALSE\n"
	mc, err := tlc.Run(tlc.Opts{Module: "MC_C13", Cfg: cfg, Dir: filepath.Join(sc.Dir, "tlc-mc"), Workers: 8, Timeout: 10 * time.Minute, HeapGB: 4})
	if err != nil {
		return infra(prop, err)
	}
	if mc.Failed || mc.InvViolated != "" {
		return infra(prop, fmt.Errorf("design-level check of MC_C13 failed (%s)\n%s", mc.InvViolated, mc.Tail))
	}
	type variant struct {
		Shape int      `json:"shape"`
		Sw    []string `json:"sw"`
		Doc   any      `json:"doc"`
	}
	rename := map[string]string{"k1": "1", "ktrue": "true", "knull": "null", "k15": "1.5", "k2": "2"}
	byShape := map[int]*eqEvent{}
	var shapes []int
	gcfg := work.Cfg{DefaultPackageName: "main", DefaultOutputName: "out.go", ResolveExtensions: []string{".json", ".yaml"},
		YAMLExtensions: []string{".yaml"}, Tags: []string{"json", "yaml", "mapstructure"}, ExtraImports: true}
	var lines []string
	for _, p := range mc.Prints {
		if strings.HasPrefix(p, "VARIANT ") {
			lines = append(lines, p[8:])
		}
	}
	sort.Strings(lines)
	// Decorations: every class of spellings is run as enumerated and again (a) with a `$schema` keyword of an old and
	// of a current draft at the root, (b) for the shapes that carry an id, under --schema-package / --schema-output /
	// --schema-root-type mappings that name the id exactly, and (c) with an id ending in "#" that the mapping names
	// without it. All spellings of one class must still produce identical output (whatever that output is).
	type decor struct {
		name, schemaKw string
		mapID          func(id string) (docID, flagID string)
	}
	decors := []decor{{name: ""},
		{name: " + $schema draft-07", schemaKw: "http://json-schema.org/draft-07/schema#"},
		{name: " + $schema 2020-12", schemaKw: "https://json-schema.org/draft/2020-12/schema"},
		{name: " + mappings naming the id", mapID: func(id string) (string, string) { return id, id }},
		{name: " + id ending in #, mappings naming it without", mapID: func(id string) (string, string) { return id + "#", id }},
		{name: " + mappings naming the id with a trailing #", mapID: func(id string) (string, string) { return id, id + "#" }},
	}
	for di, dc := range decors {
		for _, ln := range lines {
			var v variant
			if err := json.Unmarshal([]byte(ln), &v); err != nil {
				return infra(prop, err)
			}
			key := v.Shape + 100*di
			e := byShape[key]
			if e == nil {
				e = &eqEvent{Class: fmt.Sprintf("shape %d%s", v.Shape, dc.name)}
				byShape[key] = e
				shapes = append(shapes, key)
			}
			sort.Strings(v.Sw)
			val := spelled(v.Doc, rename)
			gcfg := gcfg
			if m, ok := val.(map[string]any); ok {
				if dc.schemaKw != "" {
					m["$schema"] = dc.schemaKw
				}
				if dc.mapID != nil {
					id, _ := m["$id"].(string)
					if id == "" {
						id, _ = m["id"].(string)
					}
					if id == "" {
						continue // a shape without an id has nothing a mapping could name
					}
					docID, flagID := dc.mapID(id)
					for _, k := range []string{"$id", "id"} {
						if _, has := m[k]; has {
							m[k] = docID
						}
					}
					gcfg.SchemaMappings = []work.Mapping{{SchemaID: flagID, PackageName: "example.com/mapped/pkg", RootType: "MappedRoot", OutputName: "mapped.go"}}
				}
			}
			jb, _ := json.MarshalIndent(val, "", "  ")
			yb, _ := yaml.Marshal(val)
			block := reQuotedKey.ReplaceAllString(string(yb), "$1:")
			flow := reQuotedKey.ReplaceAllString(string(jb), "$1:") // JSON text is flow-style YAML; unquote the special keys
			sw := "{" + strings.Join(v.Sw, ",") + "}"
			// the canonical JSON spelling (no switch) is variant 1 of its class
			add := func(desc, name, text string, first bool) {
				nv := &eqVariant{Desc: desc, files: map[string]string{name: text}, entry: []string{name}, cfg: gcfg}
				if first {
					e.Variants = append([]*eqVariant{nv}, e.Variants...)
				} else {
					e.Variants = append(e.Variants, nv)
				}
			}
			add("json "+sw, "root.json", string(jb), len(v.Sw) == 0)
			add("yaml-block "+sw, "root.yaml", block, false)
			add("yaml-flow "+sw, "root.yaml", flow, false)
			if esc := escapedNonASCII(flow); esc != flow { // non-ASCII text written as \uXXXX escapes
				add("json, non-ASCII as escapes "+sw, "root.json", escapedNonASCII(string(jb)), false)
				add("yaml-flow, non-ASCII as escapes "+sw, "root.yaml", esc, false)
			}
			if len(v.Sw) <= 1 { // the same files reached through an extension-less name (--resolve-extension)
				for _, x := range []struct{ desc, name, text string }{{"json via extension-less name ", "root.json", string(jb)}, {"yaml via extension-less name ", "root.yaml", block}} {
					nv := &eqVariant{Desc: x.desc + sw, files: map[string]string{x.name: x.text}, entry: []string{"root"}, cfg: gcfg}
					e.Variants = append(e.Variants, nv)
				}
			}
		}
	}
	sort.Ints(shapes)
	var evs []*eqEvent
	for _, s := range shapes {
		if len(byShape[s].Variants) > 1 { // a shape without an id has no mapping classes
			evs = append(evs, byShape[s])
		}
	}
	bevs, bmc, _, err := borrowedSpellingClasses(sc, devs, tier, rand.New(rand.NewSource(seed+13)))
	if err != nil {
		return infra(prop, err)
	}
	evs = append(evs, bevs...)
	mc.Distinct += bmc.Distinct
	mc.Generated += bmc.Generated
	if err := runEq(sc, evs); err != nil {
		return infra(prop, err)
	}
	return finishEq(prop, tier, seed, rule, sc, evs, mc, devs, fnd, t0)
}

// finishEq validates the events with Trace_EQ, writes replay files, evidence and the summary.
func finishEq(prop, tier string, seed int64, rule string, sc *work.Scratch, evs []*eqEvent, mc *tlc.Result, devs []string, fnd *Findings, t0 time.Time) int {
	events := make([]any, len(evs))
	nvar := 0
	for i, e := range evs {
		events[i] = e
		nvar += len(e.Variants)
	}
	reports, tally, tr, err := ValidateWith(sc, "tv", "Trace_EQ", "  Devs = "+devSet(devs)+"\n", nil, events)
	if err != nil {
		return infra(prop, err)
	}
	dir := filepath.Join(Home(), "replay", prop)
	_ = os.MkdirAll(dir, 0o755)
	logf, _ := os.Create(filepath.Join(dir, fmt.Sprintf("reports-%s-seed%d.ndjson", tier, seed)))
	confirmed := 0
	var vlines []string
	for _, r := range reports {
		e := evs[r.L-1]
		v := e.Variants[r.I-1]
		first := e.Variants[0]
		if logf != nil {
			b, _ := json.Marshal(map[string]any{"class": r.Class, "eqclass": e.Class, "variant": v.Desc, "ok": v.OK, "err": firstLine(v.err), "key": v.Key,
				"first": first.Desc, "first_ok": first.OK, "first_err": firstLine(first.err), "first_key": first.Key})
			logf.Write(append(b, '\n'))
		}
		if r.Class == "violation" {
			confirmed++
			if len(vlines) < 10 {
				rp := map[string]any{"property": prop, "kind": "equal-output", "class": e.Class,
					"variant_1":       map[string]any{"desc": first.Desc, "files": first.files, "entries": first.entry, "options": first.cfg, "ok": first.OK, "error": first.err, "output_key": first.Key},
					"variant_differs": map[string]any{"desc": v.Desc, "files": v.files, "entries": v.entry, "options": v.cfg, "ok": v.OK, "error": v.err, "output_key": v.Key},
					"expected":        "byte-identical output", "how_to_rerun": "bin/vcheck replay " + prop + " <this file>"}
				b, _ := json.MarshalIndent(rp, "", " ")
				p := filepath.Join(dir, fmt.Sprintf("seed%d-class%d-variant%d.json", seed, r.L, r.I))
				_ = os.WriteFile(p, b, 0o644)
				vlines = append(vlines, fmt.Sprintf("VIOLATION property=%s replay=%s", prop, p))
			}
		}
	}
	if logf != nil {
		logf.Close()
	}
	samples := []any{}
	for _, k := range []int{0, len(evs) - 1} {
		if k >= 0 && k < len(evs) {
			e := evs[k]
			v := e.Variants[len(e.Variants)/2]
			samples = append(samples, map[string]any{"class": e.Class, "variant": v.Desc, "files": v.files, "output_key": v.Key, "first_variant": e.Variants[0].Desc, "first_output_key": e.Variants[0].Key})
		}
	}
	ev := &Evidence{PropertyID: prop, Tier: tier, Seed: seed, Level: "model_checking",
		Coverage: map[string]any{
			"states": mc.Distinct + tr.Distinct, "transitions": mc.Generated + tr.Generated,
			"traces_validated_against_impl": nvar, "evaluations": nvar, "distinct_nontrivial": nvar - len(evs),
			"rule": rule, "samples": samples, "equivalence_classes": len(evs), "variants_run": nvar,
			"known_finding_events": tally.Known, "exhaustive": true, "checker_cmd": mc.Cmd, "open_deviations": devs,
		},
		Assumptions: []string{"the harness renders the TLC-emitted spelled document faithfully as JSON and YAML text"},
		WallS:       time.Since(t0).Seconds(), Violations: confirmed}
	if len(mc.Actions) > 0 {
		acts := map[string]any{}
		for k, v := range mc.Actions {
			acts[k] = map[string]int64{"distinct": v[0], "generated": v[1]}
		}
		ev.Coverage["spec_actions"] = acts
	}
	if err := WriteEvidence(ev); err != nil {
		return infra(prop, err)
	}
	for _, fd := range fnd.Findings {
		if fd.Status != "open" {
			continue
		}
		for _, p := range fd.Properties {
			if p == prop {
				fmt.Printf("KNOWN-FINDING: property=%s %s %s\n", prop, fd.ID, fd.What)
			}
		}
	}
	fmt.Printf("%s tier=%s seed=%d: TLC checked the model on %d states and emitted the variants; %d equivalence classes, %d real generator runs compared by TLC: ok=%d known=%d violations=%d; %.1fs\n",
		prop, tier, seed, mc.Distinct, len(evs), nvar, tally.Ok, tally.Known, tally.Viol, time.Since(t0).Seconds())
	if confirmed > 0 {
		for _, l := range vlines {
			fmt.Println(l)
		}
		return 1
	}
	return 0
}
