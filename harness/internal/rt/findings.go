package rt

import (
	"encoding/json"
	"os"
	"path/filepath"
	"sort"
)

// Finding is one entry of /verif/known_findings.json (committed; never written at run time).
type Finding struct {
	ID         string   `json:"id"`
	Status     string   `json:"status"` // "open" | "fixed"
	Properties []string `json:"properties"`
	Deviation  string   `json:"deviation"` // name of the switch in the TLA+ model
	Site       string   `json:"site"`
	What       string   `json:"what"`
	Witness    any      `json:"witness,omitempty"`
	Fixed      string   `json:"fixed,omitempty"` // "fixed: property=<id> <commit> <what failed>"
}

type Findings struct {
	Findings []Finding `json:"findings"`
}

func Home() string {
	if h := os.Getenv("VERIF_HOME"); h != "" {
		return h
	}
	if _, err := os.Stat("known_findings.json"); err == nil {
		p, _ := filepath.Abs(".")
		return p
	}
	exe, _ := os.Executable()
	return filepath.Dir(filepath.Dir(exe))
}

func LoadFindings() (*Findings, error) {
	b, err := os.ReadFile(filepath.Join(Home(), "known_findings.json"))
	if err != nil {
		return nil, err
	}
	var f Findings
	if err := json.Unmarshal(b, &f); err != nil {
		return nil, err
	}
	return &f, nil
}

// OpenDevs returns the deviation switches of all open findings (sorted).
func (f *Findings) OpenDevs() []string {
	set := map[string]bool{}
	for _, x := range f.Findings {
		if x.Status == "open" && x.Deviation != "" {
			set[x.Deviation] = true
		}
	}
	out := make([]string, 0, len(set))
	for d := range set {
		out = append(out, d)
	}
	sort.Strings(out)
	return out
}

// ByDev returns the open finding that owns a deviation switch.
func (f *Findings) ByDev(dev string) *Finding {
	for i := range f.Findings {
		if f.Findings[i].Status == "open" && f.Findings[i].Deviation == dev {
			return &f.Findings[i]
		}
	}
	return nil
}
