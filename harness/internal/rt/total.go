package rt

import (
	"encoding/json"
	"fmt"
	"math/rand"
	"os"
	"path/filepath"
	"regexp"
	"strings"
	"sync"
	"time"

	"verif/harness/internal/tlc"
	"verif/harness/internal/work"
)

// C19: generated unmarshalers are total and all-or-nothing. The step machine spec/Unmarshal.tla is
// model-checked for every configuration; its terminal outcomes form the table against which TLC
// (Trace_C19) judges every observed call of the real generated methods.

type outcomeRow map[string]any

func machineTable(sc *work.Scratch, devs []string) (string, *tlc.Result, error) {
	type job struct {
		raw, addl bool
		tag       string
		d         []string
		res       *tlc.Result
		err       error
	}
	var jobs []*job
	for _, raw := range []bool{false, true} {
		for _, addl := range []bool{false, true} {
			jobs = append(jobs, &job{raw: raw, addl: addl, tag: "design"}, &job{raw: raw, addl: addl, tag: "asis", d: devs})
		}
	}
	var wg sync.WaitGroup
	for i, j := range jobs {
		wg.Add(1)
		go func(i int, j *job) {
			defer wg.Done()
			b := func(x bool) string {
				if x {
					return "TRUE"
				}
				return "FALSE"
			}
			cfg := fmt.Sprintf("SPECIFICATION Spec\nCONSTANTS\n  HasRaw = %s\n  HasAddl = %s\n  D = %s\n  Tag = %q\n", b(j.raw), b(j.addl), devSet(j.d), j.tag)
			if j.tag == "design" {
				cfg += "INVARIANTS Total ErrMeansUntouched EmitOutcome\nPROPERTIES AllOrNothing Terminates\n"
			} else {
				cfg += "INVARIANTS ErrMeansUntouched EmitOutcome\nPROPERTIES AllOrNothing Terminates\n"
			}
			j.res, j.err = tlc.Run(tlc.Opts{Module: "MC_Unmarshal", Cfg: cfg, Dir: filepath.Join(sc.Dir, fmt.Sprintf("tlc-um-%d", i)), Workers: 1, Timeout: 5 * time.Minute, HeapGB: 1, Coverage: true})
		}(i, j)
	}
	wg.Wait()
	agg := &tlc.Result{Actions: map[string][2]int64{}}
	var lines []string
	for _, j := range jobs {
		if j.err != nil {
			return "", nil, j.err
		}
		if j.res.Failed || j.res.InvViolated != "" || strings.Contains(j.res.Tail, "Temporal properties were violated") {
			return "", j.res, fmt.Errorf("Unmarshal step machine (%s, HasRaw=%v HasAddl=%v) violates its properties (%s)\n%s", j.tag, j.raw, j.addl, j.res.InvViolated, j.res.Tail)
		}
		agg.Generated += j.res.Generated
		agg.Distinct += j.res.Distinct
		agg.WallS += j.res.WallS
		agg.Cmd = j.res.Cmd
		tlc.MergeActions(agg.Actions, j.res)
		for _, p := range j.res.Prints {
			if strings.HasPrefix(p, "OUTCOME ") {
				lines = append(lines, p[8:])
			}
		}
	}
	path := filepath.Join(sc.Dir, "table.ndjson")
	return path, agg, os.WriteFile(path, []byte(strings.Join(lines, "\n")+"\n"), 0o644)
}

// methodShape reads the emitted source of the root type's method: does it exist, does it declare the raw
// map, does it fill AdditionalProperties.
func methodShape(src, method string) (has, raw, addl bool) {
	i := strings.Index(src, "func (j *RootJson) "+method+"(")
	if i < 0 {
		return
	}
	body := src[i:]
	if j := strings.Index(body, "\n}\n"); j >= 0 {
		body = body[:j]
	}
	return true, strings.Contains(body, "var raw map[string]interface{}"), strings.Contains(body, "mapstructure.Decode(raw")
}

// nestedAddl: does a method of a type other than the root fill typed additional properties from its raw map?
func nestedAddl(src string) bool {
	for _, part := range strings.Split(src, "\nfunc (j *")[1:] {
		if strings.HasPrefix(part, "RootJson) ") {
			continue
		}
		body := part
		if j := strings.Index(body, "\n}\n"); j >= 0 {
			body = body[:j]
		}
		if strings.Contains(body, "mapstructure.Decode(raw") {
			return true
		}
	}
	return false
}

type callMeta struct {
	text, fmt, prior string
}

// subValues collects the distinct JSON sub-values of the documents (compact text), at most max.
func subValues(texts []string, max int) []string {
	seen := map[string]bool{}
	var out []string
	var walk func(v any)
	walk = func(v any) {
		if len(out) >= max {
			return
		}
		b, err := json.Marshal(v)
		if err == nil && !seen[string(b)] {
			seen[string(b)] = true
			out = append(out, string(b))
		}
		switch x := v.(type) {
		case []any:
			for _, e := range x {
				walk(e)
			}
		case map[string]any:
			for _, e := range x {
				walk(e)
			}
		}
	}
	for _, t := range texts {
		var v any
		d := json.NewDecoder(strings.NewReader(t))
		d.UseNumber()
		if d.Decode(&v) == nil {
			walk(v)
		}
	}
	if len(out) == 0 {
		out = []string{"null"}
	}
	return out
}

type totalCall struct {
	RawNil   bool `json:"rawNil"`
	HasNull  bool `json:"hasNull"` // the input text holds a null somewhere
	Err      bool `json:"err"`
	Panicked bool `json:"panicked"`
	Changed  bool `json:"changed"`
}

type totalEvent struct {
	HasRaw  bool `json:"hasRaw"`
	HasAddl bool `json:"hasAddl"`
	// NestedAddl: some OTHER type of the program fills typed additional properties from its raw map (a nested
	// object): a null at its position reaches that method through the root call
	NestedAddl bool        `json:"nestedAddl"`
	Calls      []totalCall `json:"calls"`
}

func malformed(text string) []string {
	var out []string
	step := 1
	if len(text) > 40 {
		step = len(text) / 40
	}
	for i := 0; i < len(text); i += step {
		out = append(out, text[:i])
	}
	out = append(out, text+" x", text+text, "\xff"+text, strings.Replace(text, ":", ":\xc3\x28", 1), strings.Repeat("[", 10001), strings.Repeat(`{"x":`, 10001),
		"nul", "NaN", "1e999", `"\ud800"`, "\x00", " ", "\t\n", "[null]", `"`+text+`"`)
	return out
}

// RunTotal performs one run of the C19 check.
func RunTotal(f *Family, tier string) int {
	t0 := time.Now()
	seed := Seed()
	fnd, err := LoadFindings()
	if err != nil {
		return infra(f.Prop, err)
	}
	devs := fnd.OpenDevs()
	sc, err := work.New(f.Prop)
	if err != nil {
		return infra(f.Prop, err)
	}
	defer sc.Close()
	if err := sc.InitModule(); err != nil {
		return infra(f.Prop, err)
	}
	table, mres, err := machineTable(sc, devs)
	if err != nil {
		return infra(f.Prop, err)
	}
	specActions, err := vacuity(f.Prop, mres.Actions)
	if err != nil {
		return infra(f.Prop, err)
	}
	units, mc, err := Enumerate(f, sc, devs, tier)
	if err != nil {
		return infra(f.Prop, err)
	}
	rng := rand.New(rand.NewSource(seed))
	_ = rng
	metas := map[*Unit][]callMeta{}
	var metaOf func(e *Exec, ci int) callMeta
	f.ForceExtraImports = true
	f.Calls = nil
	// calls are defined per unit after concretisation: use a wrapper around Execute's default by
	// pre-computing them here
	f.Calls = func(u *Unit, i int, text string) []work.Call {
		docs := u.Docs()
		n := len(docs)
		var calls []work.Call
		add := func(t, fm, prior string) {
			calls = append(calls, work.Call{Text: t, Fmt: fm, Prior: prior})
			metas[u] = append(metas[u], callMeta{t, fm, prior})
		}
		prior := ""
		if n > 1 {
			prior = u.Raw["_texts"].([]string)[(i+1)%n]
		}
		add(text, "jsondirect", "")
		add(text, "jsondirect", prior)
		add(text, "yaml", "")
		add(text, "yaml", prior)
		if i == 0 { // every JSON shape at the root
			for _, m := range []string{"null", "true", "0", "1.5", `"a"`, "[]", "[0]", "{}", `{"k":0}`, `{"x":null}`, `[{}]`, `{"x":{"x":{}}}`, `{"x":[[[]]]}`} {
				add(m, "jsondirect", "")
				add(m, "jsondirect", prior)
				add(m, "yaml", "")
				add(m, "yaml", prior)
			}
		}
		if i < 2 {
			for _, m := range malformed(text) {
				add(m, "jsondirect", prior)
			}
			for _, m := range malformed(text)[:10] {
				add(m, "yaml", prior)
			}
		}
		return calls
	}
	// The same units once more WITHOUT --extra-imports (the CLI's default; the code that collects additional properties
	// and decodes maps differs): every unit that mentions additionalProperties and a seeded tenth of the others
	{
		var clones []*Unit
		for _, u := range units {
			b, _ := json.Marshal(u.Raw)
			if !strings.Contains(string(b), "additionalProperties") && rng.Float64() >= 0.1 {
				continue
			}
			raw := map[string]any{}
			for k, v := range u.Raw {
				raw[k] = v
			}
			raw["_noextra"] = true
			clones = append(clones, &Unit{Idx: len(units) + len(clones), Raw: raw})
		}
		units = append(units, clones...)
	}
	// Execute needs the texts of sibling documents for priors: concretise once up front
	for _, u := range units {
		var texts []string
		for _, d := range u.Docs() {
			t, err := docText(d)
			if err != nil {
				return infra(f.Prop, err)
			}
			texts = append(texts, t)
		}
		u.Raw["_texts"] = texts
	}
	var mu sync.Mutex
	orig := f.Calls
	f.Calls = func(u *Unit, i int, text string) []work.Call {
		mu.Lock()
		defer mu.Unlock()
		return orig(u, i, text)
	}
	tExec := time.Now()
	execs, err := Execute(f, sc, "u", units, 1)
	if err != nil {
		return infra(f.Prop, err)
	}
	dExec := time.Since(tExec).Seconds()
	for _, u := range units {
		delete(u.Raw, "_texts")
		delete(u.Raw, "_noextra")
	}
	var events []any
	type back struct {
		e    *Exec
		idx  []int // call indexes of the event's calls
		meth string
	}
	var backs []back
	nestedMetas := map[*Exec][]callMeta{}
	unobs, nomethod, ncalls := 0, 0, 0
	for _, e := range execs {
		if !e.Built || e.Out == nil || e.Out.Miss {
			unobs++
			continue
		}
		srcb, _ := os.ReadFile(e.Source)
		src := string(srcb)
		ms := metas[e.Unit]
		if len(ms) != len(e.Out.Res) {
			return infra(f.Prop, fmt.Errorf("call bookkeeping mismatch: %d metas, %d results", len(ms), len(e.Out.Res)))
		}
		any := false
		for _, meth := range []string{"UnmarshalJSON", "UnmarshalYAML"} {
			has, raw, addl := methodShape(src, meth)
			if !has {
				continue
			}
			any = true
			ev := totalEvent{HasRaw: raw, HasAddl: addl, NestedAddl: nestedAddl(src)}
			bk := back{e: e, meth: meth}
			for ci, m := range ms {
				if (meth == "UnmarshalJSON") != (m.fmt == "jsondirect") {
					continue
				}
				r := e.Out.Res[ci]
				t := strings.TrimSpace(m.text)
				ev.Calls = append(ev.Calls, totalCall{RawNil: t == "null" || t == "~" || t == "", HasNull: strings.Contains(t, "null") || strings.Contains(t, "~"),
					Err: r.Err, Panicked: r.Panic, Changed: !r.Unchanged})
				bk.idx = append(bk.idx, ci)
				ncalls++
			}
			events = append(events, ev)
			backs = append(backs, bk)
		}
		if !any {
			nomethod++
		}
	}
	// --- second pass: every OTHER generated type with an UnmarshalJSON method (nested objects, anyOf branch
	// types, enums, declared maps), called directly on sub-values of the unit's documents ---
	{
		reRecv := regexp.MustCompile(`(?m)^func \(j \*(\w+)\) UnmarshalJSON\(`)
		var progs []work.Prog
		var jobs []work.RunJob
		type nested struct {
			e     *Exec
			typ   string
			calls []work.Call
			raw   bool
			addl  bool
		}
		byKey := map[string]*nested{}
		for ei, e := range execs {
			if !e.Built || e.Out == nil || e.Out.Miss {
				continue
			}
			srcb, _ := os.ReadFile(e.Source)
			src := string(srcb)
			subs := subValues(e.Texts, 40)
			for _, m := range reRecv.FindAllStringSubmatch(src, -1) {
				t := m[1]
				if t == "RootJson" {
					continue
				}
				key := fmt.Sprintf("%d/%s", ei, t)
				_, raw, addl := methodShape(strings.Replace(src, "func (j *"+t+") ", "func (j *RootJson) ", -1), "UnmarshalJSON")
				n := &nested{e: e, typ: t, raw: raw, addl: addl}
				for i, sv := range subs {
					n.calls = append(n.calls, work.Call{Text: sv, Fmt: "jsondirect"})
					n.calls = append(n.calls, work.Call{Text: sv, Fmt: "jsondirect", Prior: subs[(i+1)%len(subs)]})
				}
				byKey[key] = n
				progs = append(progs, work.Prog{Key: key, PkgPath: "gen/" + e.ProgID, Type: t})
				jobs = append(jobs, work.RunJob{Unit: key, Prog: key, Calls: n.calls})
			}
		}
		const shard = 300
		for lo := 0; lo < len(progs); lo += shard {
			hi := lo + shard
			if hi > len(progs) {
				hi = len(progs)
			}
			bin, err := sc.BuildRunner(fmt.Sprintf("runner_n_%d", lo/shard), progs[lo:hi])
			if err != nil {
				return infra(f.Prop, err)
			}
			outs, err := sc.Run(bin, jobs[lo:hi])
			if err != nil {
				return infra(f.Prop, err)
			}
			for key, o := range outs {
				n := byKey[key]
				if n == nil || o.Miss || len(o.Res) != len(n.calls) {
					continue
				}
				ev := totalEvent{HasRaw: n.raw, HasAddl: n.addl}
				// a synthetic Exec so that reports can point at the nested type's calls
				ne := &Exec{Unit: n.e.Unit, ProgID: n.e.ProgID, Schema: n.e.Schema + "  [type " + n.typ + "]", Out: o}
				bk := back{e: ne, meth: n.typ + ".UnmarshalJSON"}
				var ms []callMeta
				for ci, c := range n.calls {
					r := o.Res[ci]
					ev.Calls = append(ev.Calls, totalCall{RawNil: strings.TrimSpace(c.Text) == "null", Err: r.Err, Panicked: r.Panic, Changed: !r.Unchanged})
					bk.idx = append(bk.idx, ci)
					ms = append(ms, callMeta{c.Text, c.Fmt, c.Prior})
					ncalls++
				}
				nestedMetas[ne] = ms
				events = append(events, ev)
				backs = append(backs, bk)
			}
		}
	}
	if len(events) == 0 {
		return infra(f.Prop, fmt.Errorf("no generated unmarshal method could be observed (%d units, %d unobservable)", len(execs), unobs))
	}
	metaOf = func(e *Exec, ci int) callMeta {
		if ms, ok := nestedMetas[e]; ok {
			return ms[ci]
		}
		return metas[e.Unit][ci]
	}
	tVal := time.Now()
	reports, tally, tr, err := ValidateWith(sc, "tv", "Trace_C19", "  TableFile = \"table.ndjson\"\n", map[string]string{"table.ndjson": table}, events)
	if err != nil {
		return infra(f.Prop, err)
	}
	dVal := time.Since(tVal).Seconds()
	known := 0
	var vlines []string
	confirmed := 0
	dir := filepath.Join(Home(), "replay", f.Prop)
	_ = os.MkdirAll(dir, 0o755)
	logf, _ := os.Create(filepath.Join(dir, fmt.Sprintf("reports-%s-seed%d.ndjson", tier, seed)))
	for _, r := range reports {
		bk := backs[r.L-1]
		ci := bk.idx[r.I-1]
		m := metaOf(bk.e, ci)
		res := bk.e.Out.Res[ci]
		if logf != nil {
			b, _ := json.Marshal(map[string]any{"class": r.Class, "method": bk.meth, "schema": bk.e.Schema, "input": m.text, "prior": m.prior,
				"err": res.Err, "msg": res.Msg, "panic": res.Panic, "panicmsg": firstLine(res.PanicMsg), "unchanged": res.Unchanged})
			logf.Write(append(b, '\n'))
		}
		switch r.Class {
		case "known":
			known++
		case "violation":
			confirmed++
			if len(vlines) < 10 {
				rp := &Replay{Property: f.Prop, Kind: "unmarshal-call/" + bk.meth, Unit: bk.e.Unit.Raw, Schema: bk.e.Schema, Options: bk.e.Unit.Opts(),
					Document: m.text, Expected: r.Ref, Observed: r.Obs,
					Detail: fmt.Sprintf("method %s, prior destination decoded from %q; err=%v (%s) panic=%v (%s) destination unchanged=%v",
						bk.meth, m.prior, res.Err, res.Msg, res.Panic, firstLine(res.PanicMsg), res.Unchanged),
					HowTo: "bin/vcheck replay " + f.Prop + " <this file>"}
				p, err := writeReplay(rp, fmt.Sprintf("seed%d-unit%d-call%d", seed, bk.e.Unit.Idx, ci))
				if err != nil {
					return infra(f.Prop, err)
				}
				vlines = append(vlines, fmt.Sprintf("VIOLATION property=%s replay=%s", f.Prop, p))
			}
		}
	}
	if logf != nil {
		logf.Close()
	}
	samples := []any{}
	for _, k := range []int{0, len(backs) / 2, len(backs) - 1} {
		if k >= 0 && k < len(backs) {
			bk := backs[k]
			ci := bk.idx[len(bk.idx)/2]
			m := metaOf(bk.e, ci)
			res := bk.e.Out.Res[ci]
			samples = append(samples, map[string]any{"schema": bk.e.Schema, "method": bk.meth, "input": m.text, "prior": m.prior,
				"error": res.Err, "panicked": res.Panic, "destination_unchanged": res.Unchanged})
		}
	}
	ev := &Evidence{PropertyID: f.Prop, Tier: tier, Seed: seed, Level: "model_checking",
		Coverage: map[string]any{
			"states":                         mres.Distinct + mc.Distinct + tr.Distinct,
			"transitions":                    mres.Generated + mc.Generated + tr.Generated,
			"traces_validated_against_impl":  ncalls,
			"evaluations":                    ncalls,
			"distinct_nontrivial":            tally.Rej,
			"rule":                           f.Rule,
			"samples":                        samples,
			"programs":                       len(execs) - unobs,
			"machine_states":                 mres.Distinct,
			"spec_actions":                   specActions,
			"methods_observed":               len(events),
			"calls":                          ncalls,
			"calls_returning_error":          tally.Rej,
			"calls_succeeding":               tally.Acc,
			"units_without_generated_method": nomethod,
			"units_unobservable":             unobs,
			"known_finding_events":           tally.Known,
			"drift_events":                   tally.Drift,
			"exhaustive":                     false,
			"checker_cmd":                    mres.Cmd,
			"open_deviations":                devs,
		},
		Assumptions: []string{
			"whether a method declares the raw map / fills AdditionalProperties is read from the emitted source text",
			"reflect.DeepEqual on the destination before/after detects every change",
			"types without a generated method are outside the statement (plain encoding/json decoding)",
		},
		WallS: time.Since(t0).Seconds(), Violations: confirmed}
	if err := WriteEvidence(ev); err != nil {
		return infra(f.Prop, err)
	}
	for _, fd := range fnd.Findings {
		if fd.Status != "open" {
			continue
		}
		for _, p := range fd.Properties {
			if p == f.Prop {
				fmt.Printf("KNOWN-FINDING: property=%s %s %s (observed on %d calls in this run)\n", f.Prop, fd.ID, fd.What, known)
			}
		}
	}
	fmt.Printf("%s tier=%s seed=%d: step machine checked in 8 configurations (%d states; Total, AllOrNothing, Terminates hold for the design); %d units, %d methods, %d calls on real generated code validated by TLC: ok=%d known=%d drift=%d violations=%d; errors returned=%d; units without generated method=%d, unobservable=%d; %.1fs (run %.0fs, trace validation %.0fs)\n",
		f.Prop, tier, seed, mres.Distinct, len(execs), len(events), ncalls, tally.Ok, tally.Known, tally.Drift, tally.Viol, tally.Rej, nomethod, unobs, time.Since(t0).Seconds(), dExec, dVal)
	if confirmed > 0 {
		for _, l := range vlines {
			fmt.Println(l)
		}
		return 1
	}
	return 0
}
