package rt

import (
	"encoding/json"
	"fmt"
	"math/rand"
	"os"
	"path/filepath"
	"strings"
	"sync"
	"time"

	"verif/harness/internal/cli"
	"verif/harness/internal/tlc"
	"verif/harness/internal/work"
)

type cliRow struct {
	Tag      string          `json:"tag"`
	Sc       json.RawMessage `json:"sc"`
	Exit     int             `json:"exit"`
	Stdout   bool            `json:"stdout"`
	Stderr   bool            `json:"stderr"`
	NWritten int             `json:"nwritten"`
	Cause    string          `json:"cause"`
}

func runMCC18(sc *work.Scratch, tag string, devs []string, tier string, check bool) (map[string][]cliRow, *tlc.Result, error) {
	cfg := "SPECIFICATION Spec\nCONSTANTS\n  Devs = " + devSet(devs) + "\n  Tier = \"" + tier + "\"\n  Tag = \"" + tag + "\"\n" +
		"  Scenarios <- ScenariosDef\n  Silent <- SilentDef\n  Panics <- PanicsDef\n  Hangs <- HangsDef\n  Either <- EitherFaults\n  RefCollapse <- RefCollapseDef\n"
	if check {
		cfg += "INVARIANTS NoPanic Clean Loud Complete NoHalfSuccess EmitOutcome\nPROPERTIES Terminates WriteAfterAll\n"
	} else {
		cfg += "INVARIANTS EmitOutcome\nPROPERTIES WriteAfterAll\n" // the as-is model breaks the properties by design
	}
	r, err := tlc.Run(tlc.Opts{Module: "MC_C18", Cfg: cfg, Dir: filepath.Join(sc.Dir, "tlc-cli-"+tag), Workers: 16, Timeout: 20 * time.Minute, HeapGB: 8, Coverage: check})
	if err != nil {
		return nil, r, err
	}
	if r.Failed || r.InvViolated != "" || strings.Contains(r.Tail, "Temporal properties were violated") {
		return nil, r, fmt.Errorf("CLI phase machine (%s) violates its properties (%s)\n%s", tag, r.InvViolated, r.Tail)
	}
	rows := map[string][]cliRow{}
	for _, p := range r.Prints {
		if !strings.HasPrefix(p, "OUTCOME ") {
			continue
		}
		var row cliRow
		if err := json.Unmarshal([]byte(p[8:]), &row); err != nil {
			return nil, r, err
		}
		k := string(row.Sc)
		dup := false
		for _, x := range rows[k] {
			if x.Exit == row.Exit && x.NWritten == row.NWritten && x.Stdout == row.Stdout {
				dup = true
			}
		}
		if !dup {
			rows[k] = append(rows[k], row)
		}
	}
	return rows, r, nil
}

type cliEvent struct {
	Sc   json.RawMessage `json:"sc"`
	Obs  *cli.Obs        `json:"obs"`
	Asis []cliRow        `json:"asis"`
}

// RunCLI performs one run of the C18 check.
func RunCLI(prop, tier, rule string) int {
	t0 := time.Now()
	seed := Seed()
	rng := rand.New(rand.NewSource(seed))
	fnd, err := LoadFindings()
	if err != nil {
		return infra(prop, err)
	}
	devs := fnd.OpenDevs()
	sc, err := work.New(prop)
	if err != nil {
		return infra(prop, err)
	}
	defer sc.Close()
	bin, err := sc.BuildCLI()
	if err != nil {
		return infra(prop, err)
	}
	design, dres, err := runMCC18(sc, "design", nil, tier, true)
	if err != nil {
		return infra(prop, err)
	}
	specActions, err := vacuity(prop, dres.Actions)
	if err != nil {
		return infra(prop, err)
	}
	asis, ares, err := runMCC18(sc, "asis", devs, tier, false)
	if err != nil {
		return infra(prop, err)
	}
	keys := make([]string, 0, len(design))
	for k := range design {
		keys = append(keys, k)
	}
	sortStrings(keys)
	type job struct {
		key   string
		s     cli.Scenario
		obs   *cli.Obs
		dir   string
		bytes string // byte sweep: description
		ridx  int    // byte sweep: index that seeds the mutation
	}
	var jobs []*job
	for _, k := range keys {
		j := &job{key: k}
		if err := json.Unmarshal([]byte(k), &j.s); err != nil {
			return infra(prop, err)
		}
		jobs = append(jobs, j)
	}
	// byte-level sweep: prefixes and single-byte replacements of valid schema files
	nb := 300
	if tier == "thorough" {
		nb = 3000
	}
	var sweeps []*job
	for i := 0; i < nb; i++ {
		sweeps = append(sweeps, &job{key: `{"flags":"bytes","args":[],"outmode":"` + []string{"stdout", "file"}[i%2] + `","iofails":false}`, bytes: "x", ridx: i})
	}
	run := func(j *job, idx int) error {
		dir := filepath.Join(sc.Dir, "runs", fmt.Sprintf("r%06d", idx))
		if err := os.MkdirAll(dir, 0o755); err != nil {
			return err
		}
		j.dir = dir
		if j.bytes == "" {
			args, wanted, err := cli.Materialize(&j.s, dir)
			if err != nil {
				return err
			}
			j.obs = cli.Run(bin, dir, args, wanted, nil)
			return nil
		}
		// byte sweep
		r := rand.New(rand.NewSource(seed*1000003 + int64(j.ridx)))
		base := cli.Scenario{Flags: "ok", OutMode: "stdout", Args: []cli.Arg{{Status: "ok"}}}
		if j.ridx%2 == 1 {
			base.OutMode = "file"
		}
		args, wanted, err := cli.Materialize(&base, dir)
		if err != nil {
			return err
		}
		p := filepath.Join(dir, "in", "arg0.json")
		b, _ := os.ReadFile(p)
		switch r.Intn(4) {
		case 0:
			b = b[:r.Intn(len(b))]
			j.bytes = "prefix"
		case 1:
			b[r.Intn(len(b))] = byte(r.Intn(256))
			j.bytes = "byte replaced"
		case 2:
			i := r.Intn(len(b))
			b = append(b[:i:i], b[i+1:]...)
			j.bytes = "byte deleted"
		default:
			i := r.Intn(len(b))
			ins := []byte{byte(r.Intn(256))}
			b = append(b[:i:i], append(ins, b[i:]...)...)
			j.bytes = "byte inserted"
		}
		if err := os.WriteFile(p, b, 0o644); err != nil {
			return err
		}
		j.obs = cli.Run(bin, dir, args, wanted, nil)
		return nil
	}
	all := append(append([]*job{}, jobs...), sweeps...)
	_ = rng
	var wg sync.WaitGroup
	sem := make(chan struct{}, 16)
	var mu sync.Mutex
	var firstErr error
	tRun := time.Now()
	for i, j := range all {
		wg.Add(1)
		sem <- struct{}{}
		go func(i int, j *job) {
			defer wg.Done()
			defer func() { <-sem }()
			if err := run(j, i); err != nil {
				mu.Lock()
				if firstErr == nil {
					firstErr = err
				}
				mu.Unlock()
			}
		}(i, j)
	}
	wg.Wait()
	if firstErr != nil {
		return infra(prop, firstErr)
	}
	dRun := time.Since(tRun).Seconds()
	var events []any
	for _, j := range all {
		rows := asis[j.key]
		if rows == nil {
			rows = []cliRow{}
		}
		events = append(events, cliEvent{Sc: json.RawMessage(j.key), Obs: j.obs, Asis: rows})
	}
	tVal := time.Now()
	reports, tally, tr, err := ValidateWith(sc, "tv", "Trace_C18", "", nil, events)
	if err != nil {
		return infra(prop, err)
	}
	dVal := time.Since(tVal).Seconds()
	dir := filepath.Join(Home(), "replay", prop)
	_ = os.MkdirAll(dir, 0o755)
	logf, _ := os.Create(filepath.Join(dir, fmt.Sprintf("reports-%s-seed%d.ndjson", tier, seed)))
	confirmed, known := 0, 0
	var vlines []string
	for _, r := range reports {
		j := all[r.L-1]
		if logf != nil {
			b, _ := json.Marshal(map[string]any{"class": r.Class, "scenario": json.RawMessage(j.key), "bytes": j.bytes, "expected": r.Ref, "obs": j.obs,
				"stderr": firstLine(j.obs.StderrText), "cmd": j.obs.Cmd})
			logf.Write(append(b, '\n'))
		}
		switch r.Class {
		case "known":
			known++
		case "violation":
			// re-execute once before reporting
			again := &job{key: j.key, s: j.s, bytes: j.bytes, ridx: j.ridx}
			idx := r.L - 1
			// (a run that hangs may end as a timeout one time and as a crash -- the Go stack is exhausted -- the next: both
			// are the same violation)
			abnormal := func(o *cli.Obs) bool { return o.TimedOut || o.Panic }
			if err := run(again, 900000+idx); err == nil && again.obs != nil && !(abnormal(again.obs) && abnormal(j.obs)) &&
				(again.obs.Exit != j.obs.Exit || again.obs.Stdout != j.obs.Stdout || len(again.obs.Created) != len(j.obs.Created)) {
				return infra(prop, fmt.Errorf("violation did not reproduce on re-execution (scenario %s)", j.key))
			}
			confirmed++
			if len(vlines) < 10 {
				files := map[string]string{}
				_ = filepath.Walk(filepath.Join(j.dir, "in"), func(p string, info os.FileInfo, err error) error {
					if err == nil && info.Mode().IsRegular() && info.Size() < 20000 {
						b, _ := os.ReadFile(p)
						rel, _ := filepath.Rel(j.dir, p)
						files[rel] = string(b)
					}
					return nil
				})
				rp := map[string]any{"property": prop, "kind": "cli-run", "scenario": json.RawMessage(j.key), "byte_sweep": j.bytes,
					"input_files": files, "command": j.obs.Cmd, "expected": r.Ref, "observed": j.obs, "stderr": j.obs.StderrText,
					"how_to_rerun": "bin/vcheck replay " + prop + " <this file>"}
				b, _ := json.MarshalIndent(rp, "", " ")
				p := filepath.Join(dir, fmt.Sprintf("seed%d-run%d.json", seed, r.L))
				if err := os.WriteFile(p, b, 0o644); err != nil {
					return infra(prop, err)
				}
				vlines = append(vlines, fmt.Sprintf("VIOLATION property=%s replay=%s", prop, p))
			}
		}
	}
	if logf != nil {
		logf.Close()
	}
	samples := []any{}
	for _, k := range []int{0, len(jobs) / 2, len(all) - 1} {
		j := all[k]
		samples = append(samples, map[string]any{"scenario": json.RawMessage(j.key), "byte_sweep": j.bytes, "command": j.obs.Cmd, "observed": j.obs})
	}
	ev := &Evidence{PropertyID: prop, Tier: tier, Seed: seed, Level: "model_checking",
		Coverage: map[string]any{
			"states": dres.Distinct + ares.Distinct + tr.Distinct, "transitions": dres.Generated + ares.Generated + tr.Generated,
			"traces_validated_against_impl": len(events), "evaluations": len(events),
			"distinct_nontrivial": tally.Rej, "rule": rule, "samples": samples,
			"scenarios_enumerated_by_tlc": len(jobs), "byte_sweep_runs": len(sweeps),
			"runs_exit_0": tally.Acc, "runs_exit_nonzero": tally.Rej,
			"known_finding_events": tally.Known, "drift_events": tally.Drift, "exhaustive": true,
			"checker_cmd": dres.Cmd, "open_deviations": devs, "spec_actions": specActions,
		},
		Assumptions: []string{
			"the scenario materialiser (harness/internal/cli) builds the file-system layout and flags the scenario names",
			"a 20 s timeout stands for 'hangs'", "output-side I/O failures are modelled in CLI.tla but not injected into real runs",
		},
		WallS: time.Since(t0).Seconds(), Violations: confirmed}
	if err := WriteEvidence(ev); err != nil {
		return infra(prop, err)
	}
	for _, fd := range fnd.Findings {
		if fd.Status != "open" {
			continue
		}
		for _, p := range fd.Properties {
			if p == prop {
				fmt.Printf("KNOWN-FINDING: property=%s %s %s\n", prop, fd.ID, fd.What)
			}
		}
	}
	fmt.Printf("%s tier=%s seed=%d: CLI phase machine checked on %d scenarios (%d states; NoPanic, Clean, Loud, Complete, NoHalfSuccess, WriteAfterAll, Terminates hold for the design); %d real runs of the tool + %d byte-sweep runs validated by TLC: ok=%d known=%d drift=%d violations=%d; %.1fs (runs %.0fs, trace validation %.0fs)\n",
		prop, tier, seed, len(jobs), dres.Distinct, len(jobs), len(sweeps), tally.Ok, tally.Known, tally.Drift, tally.Viol, time.Since(t0).Seconds(), dRun, dVal)
	_ = design
	if confirmed > 0 {
		for _, l := range vlines {
			fmt.Println(l)
		}
		return 1
	}
	return 0
}

func sortStrings(s []string) {
	for i := 1; i < len(s); i++ {
		for j := i; j > 0 && s[j] < s[j-1]; j-- {
			s[j], s[j-1] = s[j-1], s[j]
		}
	}
}
