// Package rt is the orchestrator of the runtime family of properties: TLC enumerates units
// (schema + documents), the real generator and the real generated code are executed on them, and the
// recorded observations are judged by TLC with the trace specification Trace_RT.
package rt

import (
	"bytes"
	"encoding/json"
	"fmt"
	"go/ast"
	"go/parser"
	"go/token"
	"gopkg.in/yaml.v3"
	"math/rand"
	"os"
	"os/exec"
	"path/filepath"
	"sort"
	"strconv"
	"strings"
	"sync"
	"time"

	"verif/harness/internal/abs"
	"verif/harness/internal/tlc"
	"verif/harness/internal/work"
)

type Unit struct {
	Idx int
	Raw map[string]any
}

func (u *Unit) Docs() []any         { d, _ := u.Raw["docs"].([]any); return d }
func (u *Unit) Str(k string) string { s, _ := u.Raw[k].(string); return s }

// Opts reads the generator options of a unit (record "opts", all fields optional).
func (u *Unit) Opts() work.Cfg {
	var c work.Cfg
	o, _ := u.Raw["opts"].(map[string]any)
	b := func(k string) bool { v, _ := o[k].(bool); return v }
	c.MinSizedInts = b("minSizedInts")
	c.ExtraImports = b("extraImports")
	c.OnlyModels = b("onlyModels")
	c.StructNameFromTitle = b("structNameFromTitle")
	c.Tags = []string{"json", "yaml", "mapstructure"}
	if l, ok := o["capitalizations"].([]any); ok {
		for _, x := range l {
			if s, ok := x.(string); ok {
				c.Capitalizations = append(c.Capitalizations, s)
			}
		}
	}
	return c
}

func (u *Unit) optsKey() string {
	o, _ := u.Raw["opts"].(map[string]any)
	b, _ := json.Marshal(o)
	return string(b)
}

type Family struct {
	Prop              string
	Module            string  // MC module that enumerates units and checks the design
	More              []Extra // further MC modules whose units are judged as well (C02, C19, C17 reuse other families)
	TraceMod          string  // trace module (default Trace_RT)
	Judge             string
	PackSize          int
	Select            func(units []*Unit, tier string, rng *rand.Rand) []*Unit
	Calls             func(u *Unit, i int, text string) []work.Call // default: one JSON call per document
	Level             string
	Consts            bool // observe the string constants declared by each (singleton) program
	ForceExtraImports bool // generate every unit with ExtraImports (YAML methods) regardless of its opts
	JudgeBuild        bool // a program that generates but does not compile is an event too (unit.nobuild predicts it)
	Rule              string
	ExtraCfg          func(tier string) string // extra CONSTANTS lines for the MC cfg
	Assume            []string
	Unbounded         []ApaCheck            // Apalache (SMT) checks of the same case analysis over unbounded integers
	LayoutBuilds      bool                  // C01: the multi-output layouts of the C20 family must emit packages that build together
	MixedPacks        func(tier string) int // C01: number of programs that combine units of DIFFERENT families as sibling properties
}

// ApaCheck is one `apalache-mc check --length=0 --init=Init --inv=Inv` run with its expected outcome.
type ApaCheck struct {
	Module, Inv, Expect, What string
}

// Extra names another MC module to enumerate, with its own constants and an optional sampling fraction.
type Extra struct {
	Module   string
	ExtraCfg func(tier string) string
	Frac     func(tier string) float64 // 0 or 1 = all units
	Keep     func(u *Unit) bool        // if set: only these units
}

type Report struct {
	Kind  string   `json:"kind"`
	L     int      `json:"l"`
	I     int      `json:"i"`
	Form  int      `json:"form"` // C10: index of the form within its class
	Class string   `json:"class"`
	Devs  []string `json:"devs"`
	Ref   string   `json:"ref"`
	Obs   string   `json:"obs"`
	Impl  string   `json:"impl"`
}

type Tally struct {
	Ok, Un, Known, Viol, Drift, Acc, Rej int64
}

type obsEvent struct {
	Unit   map[string]any `json:"unit"`
	Built  bool           `json:"built"`
	FmtOK  bool           `json:"fmtok"` // the generator formatted the file and gofmt leaves it unchanged
	Res    []obsRes       `json:"res"`
	GoType string         `json:"gotype"`           // Go type of the field bound to property "x" ("" if none)
	Consts []any          `json:"consts,omitempty"` // values of the string constants declared by the program

	raw []byte // set by compact: the event as the line the trace specification reads
}

// compact replaces the decoded form of the event by its JSON text: a thorough run holds hundreds of thousands
// of abstracted documents, which as nested maps take an order of magnitude more memory than as text.
func (e *obsEvent) compact() error {
	b, err := e.encode()
	if err != nil {
		return err
	}
	e.raw = b
	e.Unit, e.Res, e.Consts = nil, nil, nil
	return nil
}

func (e *obsEvent) encode() ([]byte, error) {
	type plain obsEvent
	var buf bytes.Buffer
	enc := json.NewEncoder(&buf)
	enc.SetEscapeHTML(false)
	if err := enc.Encode((*plain)(e)); err != nil {
		return nil, err
	}
	return bytes.TrimRight(buf.Bytes(), "\n"), nil
}

func (e *obsEvent) MarshalJSON() ([]byte, error) {
	if e.raw != nil {
		return e.raw, nil
	}
	return e.encode()
}

type obsRes struct {
	Err       bool `json:"err"`
	Panic     bool `json:"panic"`
	Val       any  `json:"val"` // reflective dump of the destination after the call (JV document, or {t:"none"})
	Out       any  `json:"out"` // json.Marshal of the destination after the call (JV document, or {t:"none"})
	Unchanged bool `json:"unchanged"`
}

// Exec holds what happened to each unit when run through the real code.
type Exec struct {
	Unit      *Unit
	ProgID    string
	Slot      int
	Packed    bool
	Schema    string // concrete schema text of the whole program
	Texts     []string
	GenErr    string
	GenDead   bool // the generator process crashed or hung on this unit
	Built     bool
	BuildErr  string
	Out       *work.RunOut
	Consts    []string
	HasConsts bool
	Source    string // path of the emitted root.go
	FmtBad    string // non-empty: the generator could not format the file / gofmt would change it
}

func devSet(devs []string) string {
	q := make([]string, len(devs))
	for i, d := range devs {
		q[i] = fmt.Sprintf("%q", d)
	}
	return "{" + strings.Join(q, ", ") + "}"
}

// Enumerate runs the MC module: design-level invariants + unit emission.
func Enumerate(f *Family, sc *work.Scratch, devs []string, tier string) ([]*Unit, *tlc.Result, error) {
	type enumRes struct {
		us  []*Unit
		r   *tlc.Result
		err error
	}
	all := make([]enumRes, 1+len(f.More))
	var wg sync.WaitGroup
	wg.Add(1)
	go func() {
		defer wg.Done()
		all[0].us, all[0].r, all[0].err = enumerateOne(f.Module, f.ExtraCfg, sc, devs, tier)
	}()
	for i, x := range f.More {
		wg.Add(1)
		go func(i int, x Extra) {
			defer wg.Done()
			all[i+1].us, all[i+1].r, all[i+1].err = enumerateKeep(x.Module, x.ExtraCfg, sc, devs, tier, "", "", x.Keep)
		}(i, x)
	}
	wg.Wait()
	units, res, err := all[0].us, all[0].r, all[0].err
	if err != nil {
		return nil, res, err
	}
	for i, x := range f.More {
		us, r, err := all[i+1].us, all[i+1].r, all[i+1].err
		if err != nil {
			return nil, r, err
		}
		frac := 1.0
		if x.Frac != nil {
			frac = x.Frac(tier)
		}
		if frac > 0 && frac < 1 {
			rng := rand.New(rand.NewSource(seedOf() + int64(len(x.Module))))
			var keep []*Unit
			for _, u := range us {
				if k, _ := u.Raw["keep"].(bool); k || rng.Float64() < frac {
					keep = append(keep, u)
				}
			}
			us = keep
		}
		units = append(units, us...)
		res.Generated += r.Generated
		res.Distinct += r.Distinct
		res.WallS += r.WallS
	}
	for i, u := range units {
		u.Idx = i
	}
	return units, res, nil
}

func seedOf() int64 {
	if s := os.Getenv("VERIF_SEED"); s != "" {
		if n, err := strconv.ParseInt(s, 10, 64); err == nil {
			return n
		}
	}
	return 1
}

func enumerateOne(module string, extraCfg func(string) string, sc *work.Scratch, allDevs []string, tier string) ([]*Unit, *tlc.Result, error) {
	return enumerateOneProps(module, extraCfg, sc, allDevs, tier, "", "")
}

// enumerateOneProps: like enumerateOne, in scratch directory tlc-mc-<module><suffix>, with extra cfg lines
// (e.g. a PROPERTY for liveness).
func enumerateOneProps(module string, extraCfg func(string) string, sc *work.Scratch, allDevs []string, tier, suffix, cfgTail string) ([]*Unit, *tlc.Result, error) {
	return enumerateKeep(module, extraCfg, sc, allDevs, tier, suffix, cfgTail, nil)
}

// enumerateKeep: the units are decoded as TLC prints them; those that keep (if given) turns down are dropped
// at once, so that a family which borrows a slice of another family's units never holds the rest.
func enumerateKeep(module string, extraCfg func(string) string, sc *work.Scratch, allDevs []string, tier, suffix, cfgTail string, keep func(*Unit) bool) ([]*Unit, *tlc.Result, error) {
	// the MC modules model the JSON path: deviations of the YAML path only ("Yaml...") do not apply
	var devs []string
	for _, d := range allDevs {
		if !strings.HasPrefix(d, "Yaml") {
			devs = append(devs, d)
		}
	}
	f := &Family{Module: module}
	extra := ""
	if extraCfg != nil {
		extra = extraCfg(tier)
	}
	cfg := "SPECIFICATION Spec\nCONSTANTS\n  UnitsFile = \"stdout\"\n  Devs = " + devSet(devs) + "\n" + extra +
		"INVARIANTS DesignOK AsIsOK Emit\nCHECK_DEADLOCK FALSE\n" + cfgTail
	var units []*Unit
	var keys []string
	var decErr error
	onPrint := func(p string) bool {
		if !strings.HasPrefix(p, "UNIT ") {
			return false
		}
		var m map[string]any
		dec := json.NewDecoder(strings.NewReader(p[5:]))
		dec.UseNumber()
		if err := dec.Decode(&m); err != nil {
			if decErr == nil {
				decErr = fmt.Errorf("bad unit line: %v", err)
			}
			return true
		}
		u := &Unit{Raw: m}
		if keep != nil && !keep(u) {
			return true
		}
		b, _ := json.Marshal(m)
		units = append(units, u)
		keys = append(keys, string(b))
		return true
	}
	r, err := tlc.Run(tlc.Opts{Module: f.Module, Cfg: cfg, Dir: filepath.Join(sc.Dir, "tlc-mc-"+module+suffix), Workers: 16,
		Timeout: 30 * time.Minute, HeapGB: 8, OnPrint: onPrint})
	if err != nil {
		return nil, r, err
	}
	if r.InvViolated != "" || r.Failed {
		return nil, r, fmt.Errorf("design-level check of %s failed (invariant %q)\n%s", f.Module, r.InvViolated, r.Tail)
	}
	if decErr != nil {
		return nil, r, decErr
	}
	// TLC's workers print in nondeterministic order: sort by text so that seeds select the same units
	idx := make([]int, len(units))
	for i := range idx {
		idx[i] = i
	}
	sort.Slice(idx, func(a, b int) bool { return keys[idx[a]] < keys[idx[b]] })
	sorted := make([]*Unit, len(units))
	for i, j := range idx {
		sorted[i] = units[j]
		sorted[i].Idx = i
	}
	return sorted, r, nil
}

// Execute runs units through the real generator and the real generated code.
func Execute(f *Family, sc *work.Scratch, tag string, units []*Unit, pack int) ([]*Exec, error) {
	if pack < 1 {
		pack = 1
	}
	// group by options, then pack
	groups := map[string][]*Unit{}
	var gkeys []string
	for _, u := range units {
		k := u.optsKey()
		if _, ok := groups[k]; !ok {
			gkeys = append(gkeys, k)
		}
		groups[k] = append(groups[k], u)
	}
	sort.Strings(gkeys)
	type prog struct {
		id    string
		units []*Unit
		cfg   work.Cfg
	}
	var progs []*prog
	for _, k := range gkeys {
		g := groups[k]
		for i := 0; i < len(g); i += pack {
			j := i + pack
			if j > len(g) {
				j = len(g)
			}
			progs = append(progs, &prog{id: fmt.Sprintf("%s%06d", tag, len(progs)), units: g[i:j], cfg: g[i].Opts()})
		}
	}
	execs := make([]*Exec, 0, len(units))
	byProg := map[string][]*Exec{}
	var jobs []work.GenJob
	for _, p := range progs {
		packed := pack > 1
		var schema string
		var exs []*Exec
		if !packed {
			u := p.units[0]
			s, err := unitSchema(u, unitRen(u))
			if err != nil {
				return nil, err
			}
			schema = s
			exs = append(exs, &Exec{Unit: u, ProgID: p.id, Slot: 0})
		} else {
			var props, defs, ldefs []string
			for slot, u := range p.units {
				ren := func(n string) string { return fmt.Sprintf("%s_%d", n, slot) }
				m := u.Raw["schema"]
				s, err := abs.Schema(m, ren)
				if err != nil {
					return nil, err
				}
				props = append(props, fmt.Sprintf("%q:%s", fmt.Sprintf("s%d", slot), s))
				dl, _ := u.Raw["defs"].([]any)
				for _, e := range dl {
					em, _ := e.(map[string]any)
					ds, err := abs.Schema(em["s"], ren)
					if err != nil {
						return nil, err
					}
					defs = append(defs, fmt.Sprintf("%q:%s", ren(abs.Key(em["k"])), ds))
				}
				ll, _ := u.Raw["ldefs"].([]any) // entries of the legacy `definitions` block
				for _, e := range ll {
					em, _ := e.(map[string]any)
					ds, err := abs.Schema(em["s"], ren)
					if err != nil {
						return nil, err
					}
					ldefs = append(ldefs, fmt.Sprintf("%q:%s", ren(abs.Key(em["k"])), ds))
				}
				exs = append(exs, &Exec{Unit: u, ProgID: p.id, Slot: slot, Packed: true})
			}
			schema = `{"type":"object","properties":{` + strings.Join(props, ",") + `}`
			if len(defs) > 0 {
				schema += `,"$defs":{` + strings.Join(defs, ",") + `}`
			}
			if len(ldefs) > 0 {
				schema += `,"definitions":{` + strings.Join(ldefs, ",") + `}`
			}
			schema += "}"
		}
		for _, e := range exs {
			e.Schema = schema
			for _, d := range e.Unit.Docs() {
				t, err := abs.Doc(d)
				if err != nil {
					return nil, err
				}
				if e.Packed {
					t = fmt.Sprintf(`{"s%d":%s}`, e.Slot, t)
				}
				e.Texts = append(e.Texts, t)
			}
		}
		execs = append(execs, exs...)
		byProg[p.id] = exs
		cfg := p.cfg
		if f.ForceExtraImports {
			// (a unit marked _noextra keeps the CLI's default: no YAML code, no extra imports)
			if _, no := p.units[0].Raw["_noextra"]; !no || pack > 1 {
				cfg.ExtraImports = true
			}
		}
		cfg.DefaultPackageName = p.id
		cfg.DefaultOutputName = "root.go"
		files, entry := map[string]string{"root.json": schema}, "root.json"
		if !packed {
			if fs, en, exts, ok, err := unitFiles(p.units[0], schema); err != nil {
				return nil, err
			} else if ok {
				files, entry = fs, en
				cfg.ResolveExtensions = exts
				cfg.YAMLExtensions = []string{".yml", ".yaml"} // the CLI's default
				exs[0].Schema = describeFiles(fs, en)
			}
		}
		jobs = append(jobs, work.GenJob{ID: p.id, Dir: filepath.Join(sc.Dir, "in", p.id),
			Files: files, Entries: []string{entry},
			OutDir: filepath.Join(sc.Mod, "gen", p.id), Cfg: cfg})
	}
	gres, err := sc.Generate(jobs)
	if err != nil {
		return nil, err
	}
	var okProgs []work.Prog
	for _, p := range progs {
		r := gres[p.id]
		if r == nil || !r.OK {
			msg := "no result"
			if r != nil {
				msg = r.Err
				if r.Panic != "" {
					msg = "PANIC " + r.Panic
				}
			}
			for _, e := range byProg[p.id] {
				e.GenErr = msg
				e.GenDead = r != nil && r.Dead
			}
			_ = os.RemoveAll(filepath.Join(sc.Mod, "gen", p.id))
			continue
		}
	}
	for _, p := range progs {
		if r := gres[p.id]; r != nil && r.OK {
			for _, w := range r.Warnings {
				if strings.Contains(w, "could not be formatted") {
					for _, e := range byProg[p.id] {
						e.FmtBad = firstLineOf(w)
					}
				}
			}
		}
	}
	if f.JudgeBuild {
		if out, err := exec.Command("gofmt", "-l", filepath.Join(sc.Mod, "gen")).Output(); err == nil {
			for _, l := range strings.Split(string(out), "\n") {
				l = strings.TrimSpace(l)
				if l == "" {
					continue
				}
				id := filepath.Base(filepath.Dir(l))
				for _, e := range byProg[id] {
					if e.FmtBad == "" {
						e.FmtBad = "gofmt would change the emitted file"
					}
				}
			}
		}
	}
	failed, err := sc.BuildAll("./gen/" + tagGlob(tag))
	if err != nil {
		return nil, err
	}
	for _, p := range progs {
		if byProg[p.id][0].GenErr != "" {
			continue
		}
		if msg, bad := failed["gen/"+p.id]; bad {
			for _, e := range byProg[p.id] {
				e.BuildErr = msg
			}
			continue
		}
		for _, e := range byProg[p.id] {
			e.Built = true
			e.Source = filepath.Join(sc.Mod, "gen", p.id, "root.go")
			if f.Consts {
				e.Consts, e.HasConsts = stringConsts(filepath.Join(sc.Mod, "gen", p.id, "root.go"))
			}
		}
		rootType := "RootJson"
		if rt := p.units[0].Str("roottype"); rt != "" && pack <= 1 {
			rootType = rt
		}
		// the program must declare the type of its root document: a run that succeeds without emitting it would
		// otherwise only show as a runner that does not link
		if f.Judge != "build" {
			found := false
			for _, n := range declaredTypes(filepath.Join(sc.Mod, "gen", p.id, "root.go")) {
				found = found || n == rootType
			}
			if !found {
				for _, e := range byProg[p.id] {
					e.Built = false
					e.BuildErr = "the emitted package does not declare the root type " + rootType
				}
				continue
			}
		}
		okProgs = append(okProgs, work.Prog{Key: p.id, PkgPath: "gen/" + p.id, Type: rootType})
	}
	if f.Judge == "build" { // C01: nothing is executed
		for _, e := range execs {
			if e.Built {
				e.Out = &work.RunOut{Types: map[string]string{}}
			}
		}
		return execs, nil
	}
	// shard the runner so that link time stays small and shards build in parallel
	const shard = 400
	var jobsByShard [][]work.RunJob
	var shards [][]work.Prog
	for i := 0; i < len(okProgs); i += shard {
		j := i + shard
		if j > len(okProgs) {
			j = len(okProgs)
		}
		shards = append(shards, okProgs[i:j])
	}
	shardOf := map[string]int{}
	for si, sh := range shards {
		for _, p := range sh {
			shardOf[p.Key] = si
		}
	}
	jobsByShard = make([][]work.RunJob, len(shards))
	for ei, e := range execs {
		if !e.Built {
			continue
		}
		var calls []work.Call
		for i, t := range e.Texts {
			if f.Calls != nil {
				calls = append(calls, f.Calls(e.Unit, i, t)...)
			} else {
				calls = append(calls, work.Call{Text: t, Fmt: "json"})
			}
		}
		si := shardOf[e.ProgID]
		jobsByShard[si] = append(jobsByShard[si], work.RunJob{Unit: fmt.Sprint(ei), Prog: e.ProgID, Calls: calls})
	}
	var wg sync.WaitGroup
	var mu sync.Mutex
	var firstErr error
	sem := make(chan struct{}, 4)
	for si := range shards {
		wg.Add(1)
		sem <- struct{}{}
		go func(si int) {
			defer wg.Done()
			defer func() { <-sem }()
			bin, err := sc.BuildRunner(fmt.Sprintf("runner_%s_%d", tag, si), shards[si])
			if err == nil {
				var outs map[string]*work.RunOut
				outs, err = sc.Run(bin, jobsByShard[si])
				mu.Lock()
				for k, o := range outs {
					var ei int
					fmt.Sscan(k, &ei)
					execs[ei].Out = o
				}
				mu.Unlock()
			}
			if err != nil {
				mu.Lock()
				if firstErr == nil {
					firstErr = err
				}
				mu.Unlock()
			}
		}(si)
	}
	wg.Wait()
	return execs, firstErr
}

func tagGlob(tag string) string { return "..." }

func firstLineOf(s string) string {
	if i := strings.IndexByte(s, '\n'); i >= 0 {
		s = s[:i]
	}
	if len(s) > 200 {
		s = s[:200]
	}
	return s
}

// YamlCalls: each document is decoded as JSON, as YAML given the JSON text itself (flow style) and as
// YAML in block style (rendered by yaml.v3 from the generic value).
func YamlCalls(u *Unit, i int, text string) []work.Call {
	block := text
	dec := json.NewDecoder(strings.NewReader(text))
	dec.UseNumber()
	var v any
	if err := dec.Decode(&v); err == nil {
		if b, err := yaml.Marshal(plainNumbers(v)); err == nil {
			block = string(b)
		}
	}
	return []work.Call{{Text: text, Fmt: "json"}, {Text: text, Fmt: "yaml"}, {Text: block, Fmt: "yaml"}}
}

func plainNumbers(v any) any {
	switch x := v.(type) {
	case json.Number:
		if n, err := x.Int64(); err == nil {
			return n
		}
		if n, err := strconv.ParseUint(x.String(), 10, 64); err == nil {
			return n
		}
		f, _ := x.Float64()
		return f
	case []any:
		for i := range x {
			x[i] = plainNumbers(x[i])
		}
		return x
	case map[string]any:
		for k := range x {
			x[k] = plainNumbers(x[k])
		}
		return x
	}
	return v
}

func docText(d any) (string, error) { return abs.Doc(d) }

// stringConsts returns the values of all `const X T = "..."` declarations of a generated file.
func stringConsts(path string) ([]string, bool) {
	fset := token.NewFileSet()
	file, err := parser.ParseFile(fset, path, nil, 0)
	if err != nil {
		return nil, false
	}
	var out []string
	for _, d := range file.Decls {
		gd, ok := d.(*ast.GenDecl)
		if !ok || gd.Tok != token.CONST {
			continue
		}
		for _, sp := range gd.Specs {
			vs, _ := sp.(*ast.ValueSpec)
			if vs == nil || vs.Type == nil {
				continue
			}
			for _, v := range vs.Values {
				if bl, ok := v.(*ast.BasicLit); ok && bl.Kind == token.STRING {
					if s, err := strconv.Unquote(bl.Value); err == nil {
						out = append(out, s)
					}
				}
			}
		}
	}
	return out, true
}

func unitSchema(u *Unit, ren abs.RefRename) (string, error) {
	m := map[string]any{}
	s, _ := u.Raw["schema"].(map[string]any)
	for k, v := range s {
		m[k] = v
	}
	envOnly, _ := u.Raw["envonly"].(bool) // defs is only the environment of the reference semantics: the schemas live in files
	if dl, _ := u.Raw["defs"].([]any); len(dl) > 0 && !envOnly {
		m["defs"] = dl
	}
	if dl, _ := u.Raw["ldefs"].([]any); len(dl) > 0 {
		m["ldefs"] = dl
	}
	return abs.Schema(m, ren)
}

// unitRen: units with strip = true spell their definition names without digits (N1, N2 -> N), so that two
// documents declare same-named definitions while the specification keeps them apart.
func unitRen(u *Unit) abs.RefRename {
	l, _ := u.Raw["strip"].([]any)
	if len(l) == 0 {
		return nil
	}
	set := map[string]bool{}
	for _, x := range l {
		if s, ok := x.(string); ok {
			set[s] = true
		}
	}
	return func(n string) string {
		if set[n] {
			return strings.TrimRight(n, "0123456789")
		}
		return n
	}
}

func segPath(v any) string {
	l, _ := v.([]any)
	parts := make([]string, len(l))
	for i, x := range l {
		parts[i], _ = x.(string)
	}
	return strings.Join(parts, "/")
}

// unitFiles materialises a multi-document unit (C10): the root document at rootpath plus the documents of
// field files ([path, s, defs, yaml]); ok = false for ordinary single-document units.
func unitFiles(u *Unit, rootSchema string) (map[string]string, string, []string, bool, error) {
	if _, has := u.Raw["rootpath"]; !has {
		return nil, "", nil, false, nil
	}
	entry := segPath(u.Raw["rootpath"])
	files := map[string]string{entry: rootSchema}
	ren := unitRen(u)
	fl, _ := u.Raw["files"].([]any)
	for _, f := range fl {
		fm, _ := f.(map[string]any)
		m := map[string]any{}
		if s, ok := fm["s"].(map[string]any); ok {
			for k, v := range s {
				m[k] = v
			}
		}
		if dl, _ := fm["defs"].([]any); len(dl) > 0 {
			m["defs"] = dl
		}
		text, err := abs.Schema(m, ren)
		if err != nil {
			return nil, "", nil, false, err
		}
		if y, _ := fm["yaml"].(bool); y {
			var v any
			dec := json.NewDecoder(strings.NewReader(text))
			dec.UseNumber()
			if err := dec.Decode(&v); err != nil {
				return nil, "", nil, false, err
			}
			b, err := yaml.Marshal(plainNumbers(v))
			if err != nil {
				return nil, "", nil, false, err
			}
			text = string(b)
		}
		files[segPath(fm["path"])] = text
	}
	var exts []string
	if l, ok := u.Raw["exts"].([]any); ok {
		for _, x := range l {
			if s, ok := x.(string); ok {
				exts = append(exts, s)
			}
		}
	}
	return files, entry, exts, true, nil
}

func describeFiles(files map[string]string, entry string) string {
	names := make([]string, 0, len(files))
	for n := range files {
		names = append(names, n)
	}
	sort.Strings(names)
	var b strings.Builder
	fmt.Fprintf(&b, "entry %s", entry)
	for _, n := range names {
		fmt.Fprintf(&b, " | %s: %s", n, strings.TrimSpace(files[n]))
	}
	return b.String()
}

// Observation builds the trace event of an executed unit (nil if the unit could not be observed).
func Observation(e *Exec, judgeBuild bool) (*obsEvent, error) {
	if judgeBuild && e.GenErr == "" && !e.Built && e.BuildErr != "" {
		return &obsEvent{Unit: e.Unit.Raw, Built: false, FmtOK: e.FmtBad == "", Res: []obsRes{}}, nil
	}
	if e.Built && e.Out != nil && len(e.Out.Res) == 0 && !e.Out.Miss { // build-only observation
		return &obsEvent{Unit: e.Unit.Raw, Built: true, FmtOK: e.FmtBad == "", Res: []obsRes{}}, nil
	}
	if !e.Built || e.Out == nil || e.Out.Miss || (len(e.Out.Res) != len(e.Texts) && len(e.Out.Res) != 3*len(e.Texts)) {
		return nil, nil
	}
	ev := &obsEvent{Unit: e.Unit.Raw, Built: true, FmtOK: e.FmtBad == ""}
	if e.HasConsts {
		ev.Consts = []any{}
		for _, c := range e.Consts {
			b, _ := json.Marshal(c)
			v, err := abs.FromJSON(string(b))
			if err != nil {
				v = abs.M{"t": "odd", "x": c}
			}
			ev.Consts = append(ev.Consts, v)
		}
	}
	if e.Packed {
		ev.GoType = e.Out.Types[fmt.Sprintf("s%d.x", e.Slot)]
	} else {
		ev.GoType = e.Out.Types["x"]
	}
	for _, r := range e.Out.Res {
		or := obsRes{Err: r.Err, Panic: r.Panic, Unchanged: r.Unchanged, Val: abs.M{"t": "none"}, Out: abs.M{"t": "none"}}
		for k, text := range map[string]string{"out": r.Out, "val": r.Dump} {
			if text == "" {
				continue
			}
			v, err := abs.FromJSON(text)
			if err != nil {
				continue
			}
			if e.Packed {
				v = pick(v, fmt.Sprintf("s%d", e.Slot))
			}
			if k == "out" {
				or.Out = v
			} else {
				or.Val = v
			}
		}
		ev.Res = append(ev.Res, or)
	}
	return ev, nil
}

func pick(v any, key string) any {
	m, _ := v.(map[string]any)
	if m == nil || m["t"] != "obj" {
		return abs.M{"t": "none"}
	}
	o, _ := m["o"].([]any)
	for _, kv := range o {
		km, _ := kv.(map[string]any)
		if km["k"] == key {
			return km["v"]
		}
	}
	return abs.M{"t": "none"}
}

// Validate feeds observation events to TLC (Trace_RT) in parallel chunks and gathers the reports.
func Validate(f *Family, sc *work.Scratch, tag string, events []*obsEvent, devs []string) ([]Report, Tally, *tlc.Result, error) {
	mod := f.TraceMod
	if mod == "" {
		mod = "Trace_RT"
	}
	judge := f.Judge
	if judge == "" {
		judge = "verdict"
	}
	evs := make([]any, len(events))
	for i, e := range events {
		evs[i] = e
	}
	consts := "  Devs = " + devSet(devs) + "\n  Judge = \"" + judge + "\"\n"
	return ValidateWith(sc, tag, mod, consts, nil, evs)
}

// ValidateWith feeds events to a trace module in parallel chunks. consts are extra CONSTANTS lines of the cfg,
// files are placed next to the spec (name -> source path).
func ValidateWith(sc *work.Scratch, tag, mod, consts string, files map[string]string, events []any) ([]Report, Tally, *tlc.Result, error) {
	chunk := (len(events) + 13) / 14
	if chunk < 40 {
		chunk = 40
	}
	if chunk > 1500 {
		chunk = 1500
	}
	type part struct {
		lo  int
		res *tlc.Result
		err error
	}
	var parts []*part
	for lo := 0; lo < len(events); lo += chunk {
		parts = append(parts, &part{lo: lo})
	}
	var wg sync.WaitGroup
	sem := make(chan struct{}, 14)
	for pi, p := range parts {
		wg.Add(1)
		sem <- struct{}{}
		go func(pi int, p *part) {
			defer wg.Done()
			defer func() { <-sem }()
			hi := p.lo + chunk
			if hi > len(events) {
				hi = len(events)
			}
			dir := filepath.Join(sc.Dir, fmt.Sprintf("tlc-%s-%d", tag, pi))
			_ = os.MkdirAll(dir, 0o755)
			fn := filepath.Join(dir, "obs.ndjson")
			fh, err := os.Create(fn)
			if err != nil {
				p.err = err
				return
			}
			enc := json.NewEncoder(fh)
			enc.SetEscapeHTML(false)
			for _, ev := range events[p.lo:hi] {
				if err := enc.Encode(ev); err != nil {
					p.err = err
				}
			}
			fh.Close()
			cfg := "SPECIFICATION Spec\nCONSTANTS\n  ObsFile = \"obs.ndjson\"\n" + consts +
				"INVARIANT Done\nPOSTCONDITION Accepted\nCHECK_DEADLOCK FALSE\n"
			p.res, p.err = tlc.Run(tlc.Opts{Module: mod, Cfg: cfg, Dir: dir, Workers: 1, Timeout: 30 * time.Minute, HeapGB: 3, Files: files})
		}(pi, p)
	}
	wg.Wait()
	var reports []Report
	var tally Tally
	agg := &tlc.Result{}
	for _, p := range parts {
		if p.err != nil {
			return nil, tally, nil, p.err
		}
		r := p.res
		if r.Failed || r.PostFailed || r.InvViolated != "" {
			return nil, tally, r, fmt.Errorf("trace validation did not complete (failed=%v post=%v inv=%q)\n%s", r.Failed, r.PostFailed, r.InvViolated, r.Tail)
		}
		agg.Generated += r.Generated
		agg.Distinct += r.Distinct
		agg.WallS += r.WallS
		agg.Cmd = r.Cmd
		gotTally := false
		for _, pr := range r.Prints {
			switch {
			case strings.HasPrefix(pr, "REPORT "):
				var rep Report
				if err := json.Unmarshal([]byte(pr[7:]), &rep); err != nil {
					return nil, tally, r, fmt.Errorf("bad REPORT line %q: %v", pr, err)
				}
				rep.L += p.lo
				reports = append(reports, rep)
			case strings.HasPrefix(pr, "TALLY "):
				var t map[string]int64
				if err := json.Unmarshal([]byte(pr[6:]), &t); err != nil {
					return nil, tally, r, err
				}
				if !gotTally {
					tally.Ok += t["ok"]
					tally.Un += t["un"]
					tally.Known += t["known"]
					tally.Viol += t["viol"]
					tally.Drift += t["drift"]
					tally.Acc += t["acc"]
					tally.Rej += t["rej"]
					gotTally = true
				}
			}
		}
		if !gotTally {
			return nil, tally, r, fmt.Errorf("trace validation printed no tally\n%s", r.Tail)
		}
	}
	return reports, tally, agg, nil
}
