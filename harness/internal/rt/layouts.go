package rt

import (
	"context"
	"crypto/sha256"
	"encoding/hex"
	"encoding/json"
	"fmt"
	"go/ast"
	"go/parser"
	"go/token"
	"os"
	"os/exec"
	"path/filepath"
	"sort"
	"strings"
	"sync"
	"time"

	"verif/harness/internal/tlc"
	"verif/harness/internal/work"
)

type layoutRun struct {
	Tag      string          `json:"tag"`
	Graph    string          `json:"graph"`
	Mapping  string          `json:"mapping"`
	Dirs     string          `json:"dirs"`
	Args     []string        `json:"args"`
	Failed   bool            `json:"failed"`
	Declared []string        `json:"declared"`
	Outs     json.RawMessage `json:"outs"`
}

type obsOut struct {
	File  string   `json:"file"`
	Pkg   string   `json:"pkg"`
	Types []string `json:"types"`
}

type layoutObs struct {
	Failed bool     `json:"failed"`
	Builds bool     `json:"builds"`
	Outs   []obsOut `json:"outs"`
	err    string
	hashes map[string]string // output file -> hash
}

type layoutEvent struct {
	Design json.RawMessage `json:"design"`
	Asis   json.RawMessage `json:"asis"`
	Obs    *layoutObs      `json:"obs"`
	run    *layoutRun
	job    string
}

func layoutPath(f, dirs string) string {
	if dirs == "sub" && (f == "b" || f == "c") {
		return "sub/" + f + ".json"
	}
	return f + ".json"
}

func layoutFiles(graph, dirs string) map[string]string { return layoutFilesMix(graph, dirs, false) }

// layoutFilesFor: the documents of a layout under a mapping mode (own / samebase add the shared-name definitions;
// mixedflags writes every $id with an empty fragment, the draft-04 idiom "id#", which a URL parser would rewrite).
func layoutFilesFor(graph, dirs, mapping string) map[string]string {
	files := layoutFilesMix(graph, dirs, mapping == "own" || mapping == "samebase")
	if mapping == "mixedflags" {
		for n, text := range files {
			for _, f := range []string{"a", "b", "c", "z"} {
				text = strings.ReplaceAll(text, `"$id":"https://example.com/`+f+`"`, `"$id":"`+layoutID(f, mapping)+`"`)
			}
			files[n] = text
		}
	}
	return files
}

func layoutID(f, mapping string) string {
	if mapping == "mixedflags" {
		return "HTTPS://example.com/" + f + "#"
	}
	return "https://example.com/" + f
}

// layoutFilesMix: with mix, every document also declares a definition Base (whose only property has a different
// type in every document) and a property mix = allOf[{"$ref": "#/$defs/Base"}, {...}]: the textually identical
// reference, inside an allOf, with a different target per document.
func layoutFilesMix(graph, dirs string, mix bool) map[string]string {
	refs := map[string][]string{}
	switch graph {
	case "chain":
		refs["a"], refs["b"] = []string{"b"}, []string{"c"}
	case "diamond":
		refs["a"], refs["b"] = []string{"b", "c"}, []string{"c"}
	case "cycle":
		refs["a"], refs["b"] = []string{"b"}, []string{"a"}
	}
	out := map[string]string{}
	for _, f := range []string{"a", "b", "c", "z"} {
		up := strings.ToUpper(f)
		props := map[string]any{"own" + up: map[string]any{"type": "string"}, "def": map[string]any{"$ref": "#/$defs/" + up + "Def"}}
		for _, g := range refs[f] {
			rel, _ := filepath.Rel(filepath.Dir(layoutPath(f, dirs)), layoutPath(g, dirs))
			props["to"+strings.ToUpper(g)] = map[string]any{"$ref": filepath.ToSlash(rel)}
		}
		defs := map[string]any{up + "Def": map[string]any{"type": "object", "properties": map[string]any{"v" + up: map[string]any{"type": "integer", "minimum": 1}}, "required": []string{"v" + up}}}
		if mix {
			baseType := map[string]string{"a": "integer", "b": "string", "c": "boolean", "z": "number"}[f]
			defs["Base"] = map[string]any{"type": "object", "properties": map[string]any{"base" + up: map[string]any{"type": baseType}}, "required": []string{"base" + up}}
			props["mix"] = map[string]any{"allOf": []any{map[string]any{"$ref": "#/$defs/Base"}, map[string]any{"type": "object", "properties": map[string]any{"m" + up: map[string]any{"type": "string"}}}}}
		}
		s := map[string]any{"$id": "https://example.com/" + f, "type": "object", "properties": props, "$defs": defs}
		b, _ := json.Marshal(s)
		out[layoutPath(f, dirs)] = string(b)
	}
	return out
}

func layoutCfg(mapping, modPrefix string) work.Cfg {
	c := work.Cfg{DefaultPackageName: modPrefix + "/all", DefaultOutputName: "all/all.go", Tags: []string{"json"}}
	id := func(f string) string { return "https://example.com/" + f }
	switch mapping {
	case "own":
		for _, f := range []string{"a", "b", "c", "z"} {
			c.SchemaMappings = append(c.SchemaMappings, work.Mapping{SchemaID: id(f), PackageName: modPrefix + "/p" + f, OutputName: "p" + f + "/" + f + ".go",
				RootType: "Root" + strings.ToUpper(f)})
		}
	case "samebase": // different import paths ending in the same element
		for _, f := range []string{"a", "b", "c", "z"} {
			c.SchemaMappings = append(c.SchemaMappings, work.Mapping{SchemaID: id(f), PackageName: modPrefix + "/p" + f + "/model", OutputName: "p" + f + "/model/" + f + ".go"})
		}
	case "onepkg": // one package, one output file per schema
		for _, f := range []string{"a", "b", "c", "z"} {
			c.SchemaMappings = append(c.SchemaMappings, work.Mapping{SchemaID: id(f), PackageName: modPrefix + "/pone", OutputName: "pone/" + f + ".go"})
		}
	case "sharedsame", "shareddiff":
		for _, f := range []string{"a", "b", "c", "z"} {
			m := work.Mapping{SchemaID: id(f), PackageName: modPrefix + "/p" + f, OutputName: "p" + f + "/" + f + ".go"}
			if f == "a" || f == "b" {
				m.PackageName, m.OutputName = modPrefix+"/pab", "pab/ab.go"
				if mapping == "shareddiff" && f == "b" {
					m.PackageName = modPrefix + "/pother"
				}
			}
			c.SchemaMappings = append(c.SchemaMappings, m)
		}
	case "pkgonly":
		c.SchemaMappings = append(c.SchemaMappings, work.Mapping{SchemaID: id("b"), PackageName: modPrefix + "/pb"})
	}
	return c
}

// cliMapping: the mappings that name an id through ONE of the per-schema flags only. What the missing parts of
// such a mapping default to is decided by main.go, not by the generator package, so these layouts go through the
// real command line instead of the in-process driver.
func cliMapping(mapping string) bool {
	return mapping == "pkgonly" || mapping == "rootonly" || mapping == "mixedflags"
}

func layoutFlags(mapping, modPrefix string) []string {
	fl := []string{"-p", modPrefix + "/all", "-o", "all/all.go", "--tags", "json"}
	switch mapping {
	case "pkgonly":
		fl = append(fl, "--schema-package=https://example.com/b="+modPrefix+"/pb")
	case "rootonly":
		fl = append(fl, "--schema-root-type=https://example.com/b=RootB")
	case "mixedflags":
		// a is named by one flag only and sorts before ids that are named by several; z by none
		fl = append(fl,
			"--schema-root-type="+layoutID("a", mapping)+"=RootA",
			"--schema-package="+layoutID("b", mapping)+"="+modPrefix+"/pb", "--schema-output="+layoutID("b", mapping)+"=pb/b.go",
			"--schema-output="+layoutID("c", mapping)+"=pc/c.go", "--schema-package="+layoutID("c", mapping)+"="+modPrefix+"/pc",
			"--schema-root-type="+layoutID("c", mapping)+"=RootC")
	}
	return fl
}

// runLayoutCLI writes the job's files, runs the real CLI in the job's output directory and collects the Go
// files it wrote.
func runLayoutCLI(bin string, j work.GenJob, flags []string) *work.GenResult {
	res := &work.GenResult{ID: j.ID, Outputs: map[string]string{}}
	for name, text := range j.Files {
		p := filepath.Join(j.Dir, name)
		if err := os.MkdirAll(filepath.Dir(p), 0o755); err != nil {
			res.Err = err.Error()
			return res
		}
		if err := os.WriteFile(p, []byte(text), 0o644); err != nil {
			res.Err = err.Error()
			return res
		}
	}
	if err := os.MkdirAll(j.OutDir, 0o755); err != nil {
		res.Err = err.Error()
		return res
	}
	args := append([]string{}, flags...)
	for _, e := range j.Entries {
		args = append(args, filepath.Join(j.Dir, e))
	}
	ctx, cancel := context.WithTimeout(context.Background(), 60*time.Second)
	defer cancel()
	cmd := exec.CommandContext(ctx, bin, args...)
	cmd.Dir = j.OutDir
	out, err := cmd.CombinedOutput()
	if ctx.Err() != nil {
		res.Dead, res.Panic = true, "the command did not end within 60 s"
		return res
	}
	if err != nil {
		res.Err = firstLine(string(out))
		if strings.Contains(string(out), "panic:") || strings.Contains(string(out), "goroutine ") {
			res.Panic = firstLine(string(out))
		}
		return res
	}
	res.OK = true
	_ = filepath.Walk(j.OutDir, func(p string, info os.FileInfo, err error) error {
		if err == nil && !info.IsDir() && strings.HasSuffix(p, ".go") {
			rel, _ := filepath.Rel(j.OutDir, p)
			res.Outputs[filepath.ToSlash(rel)] = p
		}
		return nil
	})
	return res
}

func observeOutputs(outputs map[string]string, job string) ([]obsOut, map[string]string) {
	var outs []obsOut
	hashes := map[string]string{}
	names := make([]string, 0, len(outputs))
	for n := range outputs {
		names = append(names, n)
	}
	sort.Strings(names)
	for _, n := range names {
		src, _ := os.ReadFile(outputs[n])
		// import paths carry the per-run module directory: normalise it before hashing
		h := sha256.Sum256([]byte(strings.ReplaceAll(string(src), "gen/"+job+"/", "gen/RUN/")))
		hashes[n] = hex.EncodeToString(h[:])[:20]
		o := obsOut{File: n, Types: []string{}}
		if file, err := parser.ParseFile(token.NewFileSet(), "x.go", src, 0); err == nil {
			o.Pkg = file.Name.Name
			for _, d := range file.Decls {
				if g, ok := d.(*ast.GenDecl); ok && g.Tok == token.TYPE {
					for _, sp := range g.Specs {
						o.Types = append(o.Types, sp.(*ast.TypeSpec).Name.Name)
					}
				}
			}
		} else {
			o.Pkg = "<unparsable>"
		}
		outs = append(outs, o)
	}
	return outs, hashes
}

// RunLayouts performs one run of the C20 check.
func RunLayouts(tier, rule string) int {
	prop := "C20"
	t0 := time.Now()
	seed := Seed()
	fnd, err := LoadFindings()
	if err != nil {
		return infra(prop, err)
	}
	devs := fnd.OpenDevs()
	sc, err := work.New(prop)
	if err != nil {
		return infra(prop, err)
	}
	defer sc.Close()
	if err := sc.InitModule(); err != nil {
		return infra(prop, err)
	}
	type cfgKey struct{ graph, mapping, dirs string }
	var cfgs []cfgKey
	for _, g := range []string{"none", "chain", "diamond", "cycle"} {
		for _, m := range []string{"default", "own", "samebase", "sharedsame", "onepkg", "shareddiff", "pkgonly", "rootonly", "mixedflags"} {
			for _, d := range []string{"flat", "sub"} {
				cfgs = append(cfgs, cfgKey{g, m, d})
			}
		}
	}
	type mcres struct {
		design, asis map[string]json.RawMessage // args key -> RUN line
		res          *tlc.Result
		err          error
	}
	results := make([]*mcres, len(cfgs))
	var wg sync.WaitGroup
	sem := make(chan struct{}, 8)
	for i, c := range cfgs {
		wg.Add(1)
		sem <- struct{}{}
		go func(i int, c cfgKey) {
			defer wg.Done()
			defer func() { <-sem }()
			r := &mcres{design: map[string]json.RawMessage{}, asis: map[string]json.RawMessage{}, res: &tlc.Result{Actions: map[string][2]int64{}}}
			results[i] = r
			for _, tag := range []string{"design", "asis"} {
				d := "{}"
				inv := "INVARIANTS EmittedOnce Placement NothingLost ConflictFails HistoryIndependent EmitRun\n"
				if tag == "asis" {
					d = devSet(devs)
					inv = "INVARIANTS EmitRun\n"
				}
				cfg := "SPECIFICATION Spec\nCONSTANTS\n  Files <- FilesDef\n  RefsOf <- RefsDef\n  TypesOf <- TypesDef\n  OutOf <- OutDef\n  PkgOf <- PkgDef\n  Orders <- OrdersDef\n  Common <- CommonDef\n  D = {}\n" +
					"  Devs = " + d + "\n  Tier = \"" + tier + "\"\n  Graph = \"" + c.graph + "\"\n  Mapping = \"" + c.mapping + "\"\n  Dirs = \"" + c.dirs + "\"\n  Tag = \"" + tag + "\"\n" + inv + "CHECK_DEADLOCK FALSE\n"
				tr, err := tlc.Run(tlc.Opts{Module: "MC_C20", Cfg: cfg, Dir: filepath.Join(sc.Dir, fmt.Sprintf("tlc-l-%d-%s", i, tag)), Workers: 2, Timeout: 10 * time.Minute, HeapGB: 2, Coverage: tag == "design"})
				if err != nil {
					r.err = err
					return
				}
				if tr.Failed || tr.InvViolated != "" {
					r.err = fmt.Errorf("Outputs model (%s, %v) violates %s\n%s", tag, c, tr.InvViolated, tr.Tail)
					return
				}
				r.res.Distinct += tr.Distinct
				r.res.Generated += tr.Generated
				r.res.Cmd = tr.Cmd
				tlc.MergeActions(r.res.Actions, tr)
				for _, p := range tr.Prints {
					if !strings.HasPrefix(p, "RUN ") {
						continue
					}
					var lr layoutRun
					if err := json.Unmarshal([]byte(p[4:]), &lr); err != nil {
						r.err = err
						return
					}
					k := strings.Join(lr.Args, ",")
					if tag == "design" {
						r.design[k] = json.RawMessage(p[4:])
					} else {
						r.asis[k] = json.RawMessage(p[4:])
					}
				}
			}
		}(i, c)
	}
	wg.Wait()
	mc := &tlc.Result{Actions: map[string][2]int64{}}
	var evs []*layoutEvent
	var jobs, cliJobs []work.GenJob
	cliFlags := map[string][]string{}
	n := 0
	for i, c := range cfgs {
		r := results[i]
		if r.err != nil {
			return infra(prop, r.err)
		}
		mc.Distinct += r.res.Distinct
		mc.Generated += r.res.Generated
		mc.Cmd = r.res.Cmd
		tlc.MergeActions(mc.Actions, r.res)
		keys := make([]string, 0, len(r.design))
		for k := range r.design {
			keys = append(keys, k)
		}
		sort.Strings(keys)
		for _, k := range keys {
			var lr layoutRun
			_ = json.Unmarshal(r.design[k], &lr)
			id := fmt.Sprintf("l%06d", n)
			n++
			asis := r.asis[k]
			if asis == nil {
				asis = r.design[k]
			}
			e := &layoutEvent{Design: r.design[k], Asis: asis, run: &lr, job: id}
			evs = append(evs, e)
			var entries []string
			for _, a := range lr.Args {
				entries = append(entries, layoutPath(a, c.dirs))
			}
			job := work.GenJob{ID: id, Dir: filepath.Join(sc.Dir, "in", id), Files: layoutFilesFor(c.graph, c.dirs, c.mapping), Entries: entries,
				OutDir: filepath.Join(sc.Mod, "gen", id), Cfg: layoutCfg(c.mapping, "vscratch/gen/"+id)}
			if cliMapping(c.mapping) {
				cliJobs = append(cliJobs, job)
				cliFlags[id] = layoutFlags(c.mapping, "vscratch/gen/"+id)
			} else {
				jobs = append(jobs, job)
			}
		}
	}
	gres, err := sc.Generate(jobs)
	if err != nil {
		return infra(prop, err)
	}
	if len(cliJobs) > 0 {
		bin, err := sc.BuildCLI()
		if err != nil {
			return infra(prop, err)
		}
		var mu sync.Mutex
		var cwg sync.WaitGroup
		csem := make(chan struct{}, 16)
		for _, j := range cliJobs {
			cwg.Add(1)
			csem <- struct{}{}
			go func(j work.GenJob) {
				defer cwg.Done()
				defer func() { <-csem }()
				r := runLayoutCLI(bin, j, cliFlags[j.ID])
				mu.Lock()
				gres[j.ID] = r
				mu.Unlock()
			}(j)
		}
		cwg.Wait()
	}
	for _, e := range evs {
		g := gres[e.job]
		e.Obs = &layoutObs{Outs: []obsOut{}}
		if g == nil || !g.OK {
			e.Obs.Failed = true
			if g != nil {
				e.Obs.err = g.Err + g.Panic
			}
			_ = os.RemoveAll(filepath.Join(sc.Mod, "gen", e.job))
			continue
		}
		e.Obs.Outs, e.Obs.hashes = observeOutputs(g.Outputs, e.job)
		if e.Obs.Outs == nil {
			e.Obs.Outs = []obsOut{}
		}
	}
	var okJobs []string
	for _, e := range evs {
		if !e.Obs.Failed {
			okJobs = append(okJobs, e.job)
		}
	}
	badJobs, err := sc.BuildJobs(okJobs)
	if err != nil {
		return infra(prop, err)
	}
	for _, e := range evs {
		if e.Obs.Failed {
			continue
		}
		e.Obs.Builds = true
		if msg, bad := badJobs[e.job]; bad {
			e.Obs.Builds = false
			e.Obs.err = firstLine(msg)
		}
	}
	events := make([]any, len(evs))
	for i, e := range evs {
		events[i] = e
	}
	reports, tally, tr, err := ValidateWith(sc, "tv", "Trace_C20", "", nil, events)
	if err != nil {
		return infra(prop, err)
	}
	// history independence on the real outputs: with one output file per schema ("own"), the bytes of a
	// schema's file must not depend on the argument list
	classes := map[string]*eqEvent{}
	var ckeys []string
	for _, e := range evs {
		if (e.run.Mapping != "own" && e.run.Mapping != "samebase") || e.Obs.Failed {
			continue
		}
		for file, h := range e.Obs.hashes {
			k := e.run.Mapping + "/" + e.run.Graph + "/" + e.run.Dirs + "/" + file
			c := classes[k]
			if c == nil {
				c = &eqEvent{Class: "layout " + e.run.Mapping + "/" + e.run.Graph + "/" + e.run.Dirs + ", output " + file}
				classes[k] = c
				ckeys = append(ckeys, k)
			}
			c.Variants = append(c.Variants, &eqVariant{Desc: "arguments " + strings.Join(e.run.Args, " "), OK: true, Key: h})
		}
	}
	sort.Strings(ckeys)
	var eqs []any
	var eqList []*eqEvent
	for _, k := range ckeys {
		eqs = append(eqs, classes[k])
		eqList = append(eqList, classes[k])
	}
	reports2, tally2, tr2, err := ValidateWith(sc, "tq", "Trace_EQ", "  Devs = "+devSet(devs)+"\n", nil, eqs)
	if err != nil {
		return infra(prop, err)
	}
	dir := filepath.Join(Home(), "replay", prop)
	_ = os.MkdirAll(dir, 0o755)
	logf, _ := os.Create(filepath.Join(dir, fmt.Sprintf("reports-%s-seed%d.ndjson", tier, seed)))
	confirmed, known := 0, 0
	var vlines []string
	for _, r := range reports {
		e := evs[r.L-1]
		if logf != nil {
			b, _ := json.Marshal(map[string]any{"class": r.Class, "graph": e.run.Graph, "mapping": e.run.Mapping, "dirs": e.run.Dirs, "args": e.run.Args,
				"expected": e.Design, "asis": e.Asis, "obs": e.Obs, "err": firstLine(e.Obs.err)})
			logf.Write(append(b, '\n'))
		}
		switch r.Class {
		case "known":
			known++
		case "violation":
			confirmed++
			if len(vlines) < 10 {
				rp := map[string]any{"property": prop, "kind": "multi-file-run", "graph": e.run.Graph, "mapping": e.run.Mapping, "dirs": e.run.Dirs,
					"arguments": e.run.Args, "files": layoutFilesFor(e.run.Graph, e.run.Dirs, e.run.Mapping), "options": layoutCfg(e.run.Mapping, "MODULE"),
					"expected_by_model": e.Design, "observed": e.Obs, "error": e.Obs.err, "how_to_rerun": "bin/vcheck replay " + prop + " <this file>"}
				if cliMapping(e.run.Mapping) {
					rp["command_line"] = append([]string{"go-jsonschema"}, layoutFlags(e.run.Mapping, "MODULE")...)
					delete(rp, "options")
				}
				b, _ := json.MarshalIndent(rp, "", " ")
				p := filepath.Join(dir, fmt.Sprintf("seed%d-run%d.json", seed, r.L))
				_ = os.WriteFile(p, b, 0o644)
				vlines = append(vlines, fmt.Sprintf("VIOLATION property=%s replay=%s", prop, p))
			}
		}
	}
	for _, r := range reports2 {
		c := eqList[r.L-1]
		v := c.Variants[r.I-1]
		if logf != nil {
			b, _ := json.Marshal(map[string]any{"class": r.Class, "history": c.Class, "variant": v.Desc, "first": c.Variants[0].Desc})
			logf.Write(append(b, '\n'))
		}
		if r.Class == "violation" {
			confirmed++
			if len(vlines) < 10 {
				rp := map[string]any{"property": prop, "kind": "history-dependence", "class": c.Class, "arguments_1": c.Variants[0].Desc, "arguments_2": v.Desc,
					"expected": "byte-identical output file for this schema", "how_to_rerun": "bin/vcheck replay " + prop + " <this file>"}
				b, _ := json.MarshalIndent(rp, "", " ")
				p := filepath.Join(dir, fmt.Sprintf("seed%d-history%d-%d.json", seed, r.L, r.I))
				_ = os.WriteFile(p, b, 0o644)
				vlines = append(vlines, fmt.Sprintf("VIOLATION property=%s replay=%s", prop, p))
			}
		}
	}
	if logf != nil {
		logf.Close()
	}
	samples := []any{}
	for _, k := range []int{0, len(evs) / 2, len(evs) - 1} {
		e := evs[k]
		samples = append(samples, map[string]any{"graph": e.run.Graph, "mapping": e.run.Mapping, "dirs": e.run.Dirs, "arguments": e.run.Args, "expected_by_model": e.Design, "observed": e.Obs})
	}
	specActions, err := vacuity(prop, mc.Actions)
	if err != nil {
		return infra(prop, err)
	}
	ev := &Evidence{PropertyID: prop, Tier: tier, Seed: seed, Level: "model_checking",
		Coverage: map[string]any{
			"states": mc.Distinct + tr.Distinct + tr2.Distinct, "transitions": mc.Generated + tr.Generated + tr2.Generated,
			"traces_validated_against_impl": len(events), "evaluations": len(events), "distinct_nontrivial": tally.Rej,
			"rule": rule, "samples": samples, "layouts": len(cfgs), "runs": len(events), "history_classes": len(eqs),
			"history_variants_compared": tally2.Ok + tally2.Viol + tally2.Known, "known_finding_events": tally.Known,
			"exhaustive": true, "checker_cmd": mc.Cmd, "open_deviations": devs, "spec_actions": specActions,
		},
		Assumptions: []string{"package clause and declared type names are read from the emitted files with go/parser"},
		WallS:       time.Since(t0).Seconds(), Violations: confirmed}
	if err := WriteEvidence(ev); err != nil {
		return infra(prop, err)
	}
	for _, fd := range fnd.Findings {
		if fd.Status == "open" {
			for _, p := range fd.Properties {
				if p == prop {
					fmt.Printf("KNOWN-FINDING: property=%s %s %s\n", prop, fd.ID, fd.What)
				}
			}
		}
	}
	fmt.Printf("%s tier=%s seed=%d: Outputs state machine checked on %d layouts x all argument lists (%d states; EmittedOnce, Placement, NothingLost, ConflictFails, HistoryIndependent hold for the design); %d real multi-file runs compared with the model by TLC: ok=%d known=%d violations=%d; %d per-schema output classes compared across argument lists: ok=%d violations=%d; %.1fs\n",
		prop, tier, seed, len(cfgs), mc.Distinct, len(events), tally.Ok, tally.Known, tally.Viol, len(eqs), tally2.Ok, tally2.Viol, time.Since(t0).Seconds())
	if confirmed > 0 {
		for _, l := range vlines {
			fmt.Println(l)
		}
		return 1
	}
	return 0
}
