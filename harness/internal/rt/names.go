package rt

import (
	"encoding/json"
	"fmt"
	"hash/fnv"
	"math/rand"
	"os"
	"path/filepath"
	"regexp"
	"strings"
	"time"
	"unicode"

	"verif/harness/internal/tlc"
	"verif/harness/internal/work"
)

// Representative runes per character class of spec/Names.tla (DESIGN.md 4.4). Each class has several; the
// seed picks one per run so that the class-uniformity assumption is itself sampled.
var classRunes = map[string][]rune{
	"lo":          {'a', 'é', 'ñ', 'z', 'ω'},
	"lo_noupper":  {'ß', 'ĸ', 'ŉ'},
	"lo_title":    {'ᾀ', 'ᾁ', 'ᾂ'},
	"up":          {'B', 'É', 'Z', 'Ω'},
	"title":       {'ǅ', 'ǈ', 'ǋ', 'ǲ'},
	"nocase":      {'日', 'ʰ', 'ª', '本'},
	"nd":          {'7', '١', '５', '0'},
	"num_other":   {'²', '½', '¾', 'Ⅷ', 'Ⅻ'}, // the last two have a lower-case form (ToLower differs), nothing else sets them apart
	"num_cased":   {'ⅰ', 'ⅱ', 'ⅲ'},
	"us":          {'_'},
	"delim":       {'-', '.', ' ', '/', '+', '@', 'Ⓐ'}, // the last one has a lower-case form
	"ws":          {' ', '\t', '\u00a0', '\u2003', '\u2028'},
	"delim_cased": {'ⓐ', 'ⓑ'},
	"delim_upper": {'ͅ'},
}

func runeCat(r rune) string {
	switch {
	case r == '_':
		return "US"
	case unicode.IsUpper(r):
		return "Lu"
	case unicode.IsLower(r):
		return "Ll"
	case unicode.IsLetter(r):
		return "Lo"
	case unicode.Is(unicode.Nd, r):
		return "Nd"
	case unicode.IsNumber(r):
		return "Nx"
	}
	return "P"
}

type nameEvent struct {
	Name  []string `json:"name"`
	Ident string   `json:"ident"`
	Cats  []string `json:"cats"`
	TagOK bool     `json:"tagok"`
	Found bool     `json:"found"`
}

// RunNames performs the identifier part of the C14 check, then the sibling / type-name units (RunFamily on
// fam), and merges the evidence.
func RunNames(fam *Family, tier string) int {
	prop := "C14"
	t0 := time.Now()
	seed := Seed()
	rng := rand.New(rand.NewSource(seed))
	fnd, err := LoadFindings()
	if err != nil {
		return infra(prop, err)
	}
	devs := fnd.OpenDevs()
	sc, err := work.New(prop)
	if err != nil {
		return infra(prop, err)
	}
	defer sc.Close()
	if err := sc.InitModule(); err != nil {
		return infra(prop, err)
	}
	maxLen := 3
	if tier == "thorough" {
		maxLen = 4
	}
	cfg := fmt.Sprintf("SPECIFICATION Spec\nCONSTANTS\n  UnitsFile = \"stdout\"\n  Devs = %s\n  MaxLen = %d\nINVARIANTS DesignOK AsIsOK Emit\nCHECK_DEADLOCK FALSE\n", devSet(devs), maxLen)
	mc, err := tlc.Run(tlc.Opts{Module: "MC_C14", Cfg: cfg, Dir: filepath.Join(sc.Dir, "tlc-mc"), Workers: 16, Timeout: 20 * time.Minute, HeapGB: 8})
	if err != nil {
		return infra(prop, err)
	}
	if mc.Failed || mc.InvViolated != "" {
		return infra(prop, fmt.Errorf("design-level check of MC_C14 failed (%s)\n%s", mc.InvViolated, mc.Tail))
	}
	type nm struct {
		Name []string `json:"name"`
		text string
	}
	var names []*nm
	for _, p := range mc.Prints {
		if strings.HasPrefix(p, "NAME ") {
			var n nm
			if err := json.Unmarshal([]byte(p[5:]), &n); err != nil {
				return infra(prop, err)
			}
			names = append(names, &n)
		}
	}
	// a representative rune per class: chosen per NAME from the class's list (a hash of the name's class sequence and
	// the seed), so that every listed rune of every class occurs in every run; within one name a class keeps one rune
	_ = rng
	seenText := map[string]bool{}
	var uniq []*nm
	for _, n := range names {
		h := fnv.New32a()
		fmt.Fprintf(h, "%d/%s", seed, strings.Join(n.Name, ","))
		pick := int(h.Sum32() >> 4)
		var sb strings.Builder
		for _, c := range n.Name {
			rs := classRunes[c]
			sb.WriteRune(rs[pick%len(rs)])
		}
		n.text = sb.String()
		if !seenText[n.text] {
			seenText[n.text] = true
			uniq = append(uniq, n)
		}
	}
	names = uniq
	// schemas: 150 names per file, each the sole property of its own definition D<k>
	const per = 150
	var jobs []work.GenJob
	for lo := 0; lo < len(names); lo += per {
		hi := lo + per
		if hi > len(names) {
			hi = len(names)
		}
		defs := map[string]any{}
		for k := lo; k < hi; k++ {
			defs[fmt.Sprintf("D%d", k)] = map[string]any{"type": "object", "properties": map[string]any{names[k].text: map[string]any{"type": "integer"}}}
		}
		b, _ := json.Marshal(map[string]any{"$schema": "http://json-schema.org/draft-07/schema#", "$defs": defs})
		id := fmt.Sprintf("n%05d", lo/per)
		cfg := work.Cfg{DefaultPackageName: id, DefaultOutputName: "root.go", Tags: []string{"json"}}
		jobs = append(jobs, work.GenJob{ID: id, Dir: filepath.Join(sc.Dir, "in", id), Files: map[string]string{"root.json": string(b)},
			Entries: []string{"root.json"}, OutDir: filepath.Join(sc.Mod, "gen", id), Cfg: cfg})
	}
	gres, err := sc.Generate(jobs)
	if err != nil {
		return infra(prop, err)
	}
	reDecl := regexp.MustCompile(`(?m)^type D(\d+) struct \{\n(?:\s*//[^\n]*\n)*\s*([^\n]*)\n`)
	events := make([]any, 0, len(names))
	evs := make([]*nameEvent, len(names))
	for k, n := range names {
		evs[k] = &nameEvent{Name: n.Name, Cats: []string{}}
	}
	for _, j := range jobs {
		r := gres[j.ID]
		if r == nil || !r.OK {
			msg := "no result"
			if r != nil {
				msg = r.Err + r.Panic
			}
			return infra(prop, fmt.Errorf("generation of a names file failed: %s", firstLine(msg)))
		}
		src, err := os.ReadFile(r.Outputs["root.go"])
		if err != nil {
			return infra(prop, err)
		}
		for _, m := range reDecl.FindAllStringSubmatch(string(src), -1) {
			var k int
			fmt.Sscan(m[1], &k)
			if k < 0 || k >= len(names) {
				continue
			}
			line := m[2]
			e := evs[k]
			sp := strings.IndexAny(line, " \t")
			if sp <= 0 {
				continue
			}
			e.Found = true
			e.Ident = line[:sp]
			for _, r := range e.Ident {
				e.Cats = append(e.Cats, runeCat(r))
			}
			// the tag literal: `json:"<name>,omitempty"`
			want := "`json:\"" + names[k].text + ",omitempty\"`"
			e.TagOK = strings.HasSuffix(strings.TrimSpace(line), want)
		}
	}
	for _, e := range evs {
		events = append(events, e)
	}
	reports, tally, tr, err := ValidateWith(sc, "tv", "Trace_C14", "  Devs = "+devSet(devs)+"\n", nil, events)
	if err != nil {
		return infra(prop, err)
	}
	dir := filepath.Join(Home(), "replay", prop)
	_ = os.MkdirAll(dir, 0o755)
	logf, _ := os.Create(filepath.Join(dir, fmt.Sprintf("reports-names-%s-seed%d.ndjson", tier, seed)))
	confirmed := 0
	var vlines []string
	for _, r := range reports {
		e := evs[r.L-1]
		n := names[r.L-1]
		if logf != nil {
			b, _ := json.Marshal(map[string]any{"class": r.Class, "name": n.text, "classes": n.Name, "ident": e.Ident, "cats": e.Cats, "predicted": r.Impl, "tagok": e.TagOK, "found": e.Found})
			logf.Write(append(b, '\n'))
		}
		if r.Class == "violation" {
			confirmed++
			if len(vlines) < 10 {
				rp := map[string]any{"property": prop, "kind": "name", "name": n.text, "name_classes": n.Name, "identifier_found": e.Ident,
					"identifier_categories": e.Cats, "predicted_categories": r.Impl, "tag_carries_exact_name": e.TagOK,
					"schema":       map[string]any{"$defs": map[string]any{"D": map[string]any{"type": "object", "properties": map[string]any{n.text: map[string]any{"type": "integer"}}}}},
					"how_to_rerun": "bin/vcheck replay C14 <this file>"}
				b, _ := json.MarshalIndent(rp, "", " ")
				p := filepath.Join(dir, fmt.Sprintf("seed%d-name%d.json", seed, r.L))
				_ = os.WriteFile(p, b, 0o644)
				vlines = append(vlines, fmt.Sprintf("VIOLATION property=%s replay=%s", prop, p))
			}
		}
	}
	if logf != nil {
		logf.Close()
	}
	fmt.Printf("C14 names tier=%s seed=%d: TLC enumerated %d names over 13 character classes (%d states, design invariants hold); %d distinct names fed to the real generator; validated by TLC: ok=%d known=%d drift=%d violations=%d; %.1fs\n",
		tier, seed, len(mc.Prints), mc.Distinct, len(names), tally.Ok, tally.Known, tally.Drift, tally.Viol, time.Since(t0).Seconds())
	// second part: sibling sets, type names, capitalization lists, binding
	code2 := RunFamily(fam, tier)
	// merge evidence
	evp := filepath.Join(Home(), "evidence", prop+".json")
	if d := os.Getenv("VERIF_EVIDENCE_DIR"); d != "" {
		evp = filepath.Join(d, prop+".json")
	}
	var ev Evidence
	if b, err := os.ReadFile(evp); err == nil {
		_ = json.Unmarshal(b, &ev)
	}
	if ev.Coverage == nil {
		ev = Evidence{PropertyID: prop, Tier: tier, Seed: seed, Level: "model_checking", Coverage: map[string]any{}}
	}
	num := func(k string) int64 {
		switch x := ev.Coverage[k].(type) {
		case float64:
			return int64(x)
		case int64:
			return x
		case int:
			return int64(x)
		}
		return 0
	}
	ev.Coverage["states"] = num("states") + mc.Distinct + tr.Distinct
	ev.Coverage["transitions"] = num("transitions") + mc.Generated + tr.Generated
	ev.Coverage["traces_validated_against_impl"] = num("traces_validated_against_impl") + int64(len(events))
	ev.Coverage["evaluations"] = num("evaluations") + int64(len(events))
	ev.Coverage["distinct_nontrivial"] = num("distinct_nontrivial") + tally.Rej
	ev.Coverage["names_enumerated"] = len(mc.Prints)
	ev.Coverage["names_replayed"] = len(names)
	ev.Coverage["names_known_finding_events"] = tally.Known
	ev.Coverage["names_rule"] = "every name of length 1.." + fmt.Sprint(maxLen) + " over the 13 character classes, one seed-chosen representative rune per class, each the sole property of its own object; non-trivial = names that split into more than one word"
	if s, ok := ev.Coverage["samples"].([]any); ok && len(evs) > 0 {
		e := evs[len(evs)/2]
		ev.Coverage["samples"] = append(s, map[string]any{"name": names[len(evs)/2].text, "identifier": e.Ident, "categories": e.Cats})
	}
	ev.Violations += confirmed
	ev.WallS = time.Since(t0).Seconds()
	_ = WriteEvidence(&ev)
	for _, l := range vlines {
		fmt.Println(l)
	}
	if confirmed > 0 || code2 == 1 {
		return 1
	}
	return code2
}
