// Package work manages the scratch Go module in which the real generator (from /repo's working tree)
// is driven and the code it emits is compiled and executed.
package work

import (
	"bufio"
	"bytes"
	"context"
	_ "embed"
	"encoding/json"
	"fmt"
	"os"
	"os/exec"
	"path/filepath"
	"regexp"
	"sort"
	"strings"
	"time"
)

//go:embed gendrv.go.txt
var gendrvSrc string

//go:embed runner.go.txt
var runnerSrc string

// Repo is the tree under verification.
func Repo() string {
	if r := os.Getenv("VERIF_REPO"); r != "" {
		return r
	}
	return "/repo"
}

type Scratch struct {
	Dir   string
	Mod   string // Dir/mod
	Cache string // Dir/gocache: the Go build cache of this run (removed with the scratch directory)
}

func New(prefix string) (*Scratch, error) {
	base := os.Getenv("TMPDIR")
	if base == "" {
		base = "/tmp"
	}
	d, err := os.MkdirTemp(base, "vcheck-"+prefix+"-")
	if err != nil {
		return nil, err
	}
	s := &Scratch{Dir: d, Mod: filepath.Join(d, "mod"), Cache: filepath.Join(d, "gocache")}
	s.seedCache()
	return s, os.MkdirAll(s.Mod, 0o755)
}

// seedCache gives the run a Go build cache of its own. A check compiles thousands of generated packages; in the
// user's shared cache they would pile up for days (it grew by tens of gigabytes per day of development). The
// private cache starts as a hard-linked copy of the base cache setup.sh builds (standard library and the
// dependencies of generated code, compiled once), so nothing but the run's own packages is compiled or stored,
// and all of it goes away with the scratch directory.
func (s *Scratch) seedCache() {
	if os.Getenv("VERIF_SHARED_GOCACHE") != "" {
		s.Cache = ""
		return
	}
	home := os.Getenv("VERIF_HOME")
	if home == "" {
		home = "/verif"
	}
	base := filepath.Join(home, "bin", "gocache-base")
	if st, err := os.Stat(base); err == nil && st.IsDir() {
		if err := exec.Command("cp", "-al", base, s.Cache).Run(); err == nil {
			return
		}
		_ = os.RemoveAll(s.Cache)
		if err := exec.Command("cp", "-a", base, s.Cache).Run(); err == nil {
			return
		}
		_ = os.RemoveAll(s.Cache)
	}
	_ = os.MkdirAll(s.Cache, 0o755)
}

func (s *Scratch) Close() {
	if os.Getenv("VERIF_KEEP") != "" {
		fmt.Fprintln(os.Stderr, "scratch kept:", s.Dir)
		return
	}
	_ = os.RemoveAll(s.Dir)
}

func (s *Scratch) goEnv() []string {
	env := append(os.Environ(), "GOFLAGS=-mod=mod", "GOPROXY=off", "GOSUMDB=off", "GOTOOLCHAIN=local", "GOWORK=off")
	if s.Cache != "" {
		env = append(env, "GOCACHE="+s.Cache)
	}
	return env
}

func (s *Scratch) goCmd(timeout time.Duration, args ...string) ([]byte, error) {
	ctx, cancel := context.WithTimeout(context.Background(), timeout)
	defer cancel()
	cmd := exec.CommandContext(ctx, "go", args...)
	cmd.Dir = s.Mod
	cmd.Env = s.goEnv()
	out, err := cmd.CombinedOutput()
	if ctx.Err() != nil {
		return out, fmt.Errorf("go %s: timeout", strings.Join(args, " "))
	}
	return out, err
}

// InitModule writes go.mod/go.sum and the two driver programs, and builds the generator driver against
// the current working tree of the repository.
func (s *Scratch) InitModule() error {
	repo := Repo()
	gomod := "module vscratch\n\ngo 1.23.0\n\nrequire (\n" +
		"\tgithub.com/atombender/go-jsonschema v0.0.0\n" +
		"\tgithub.com/go-viper/mapstructure/v2 v2.1.0\n" +
		"\tgopkg.in/yaml.v3 v3.0.1\n)\n\n" +
		"replace github.com/atombender/go-jsonschema => " + repo + "\n"
	if err := os.WriteFile(filepath.Join(s.Mod, "go.mod"), []byte(gomod), 0o644); err != nil {
		return err
	}
	sums := map[string]bool{}
	for _, f := range []string{"go.sum", "tests/go.sum"} {
		b, err := os.ReadFile(filepath.Join(repo, f))
		if err != nil {
			continue
		}
		for _, l := range strings.Split(string(b), "\n") {
			if strings.TrimSpace(l) != "" {
				sums[l] = true
			}
		}
	}
	lines := make([]string, 0, len(sums))
	for l := range sums {
		lines = append(lines, l)
	}
	sort.Strings(lines)
	if err := os.WriteFile(filepath.Join(s.Mod, "go.sum"), []byte(strings.Join(lines, "\n")+"\n"), 0o644); err != nil {
		return err
	}
	for dir, src := range map[string]string{"gendrv": gendrvSrc, "runner": runnerSrc} {
		if err := os.MkdirAll(filepath.Join(s.Mod, dir), 0o755); err != nil {
			return err
		}
		if err := os.WriteFile(filepath.Join(s.Mod, dir, "main.go"), []byte(src), 0o644); err != nil {
			return err
		}
	}
	out, err := s.goCmd(5*time.Minute, append(append([]string{"build"}, coverFlags()...), "-o", filepath.Join(s.Dir, "gendrv.bin"), "./gendrv")...)
	if err != nil {
		return fmt.Errorf("building generator driver against %s failed: %v\n%s", repo, err, out)
	}
	return nil
}

// coverFlags: development aid. With VERIF_COVER=1 the generator driver and the CLI are built with statement
// coverage of the repository's packages (run the check with GOCOVERDIR=<dir>; tools/cover.sh reads the result):
// blocks of the generator no enumerated case ever reaches are where a change cannot be seen.
func coverFlags() []string {
	if os.Getenv("VERIF_COVER") == "" {
		return nil
	}
	return []string{"-cover", "-coverpkg=github.com/atombender/go-jsonschema/..."}
}

// BuildCLI builds the repository's main package.
func (s *Scratch) BuildCLI() (string, error) {
	bin := filepath.Join(s.Dir, "gjs.bin")
	ctx, cancel := context.WithTimeout(context.Background(), 5*time.Minute)
	defer cancel()
	cmd := exec.CommandContext(ctx, "go", append(append([]string{"build"}, coverFlags()...), "-o", bin, ".")...)
	cmd.Dir = Repo()
	env := os.Environ()
	cmd.Env = append(env, "GOPROXY=off", "GOSUMDB=off", "GOTOOLCHAIN=local")
	if s.Cache != "" {
		cmd.Env = append(cmd.Env, "GOCACHE="+s.Cache)
	}
	out, err := cmd.CombinedOutput()
	if err != nil {
		return "", fmt.Errorf("building CLI from %s failed: %v\n%s", Repo(), err, out)
	}
	return bin, nil
}

type Mapping struct {
	SchemaID, PackageName, RootType, OutputName string
}

type Cfg struct {
	ExtraImports        bool
	Capitalizations     []string
	ResolveExtensions   []string
	YAMLExtensions      []string
	DefaultPackageName  string
	DefaultOutputName   string
	StructNameFromTitle bool
	Tags                []string
	OnlyModels          bool
	MinSizedInts        bool
	SchemaMappings      []Mapping
}

type GenJob struct {
	ID          string            `json:"id"`
	Dir         string            `json:"dir"`
	Files       map[string]string `json:"files"`
	Entries     []string          `json:"entries"`
	OutDir      string            `json:"outdir"`
	Cfg         Cfg               `json:"cfg"`
	StepSources bool              `json:"stepSources"`
}

type GenStep struct {
	Entry   string            `json:"entry"`
	Err     string            `json:"err"`
	Sources map[string]string `json:"sources"`
}

type GenResult struct {
	ID       string            `json:"id"`
	OK       bool              `json:"ok"`
	Err      string            `json:"err"`
	Panic    string            `json:"panic"`
	Dead     bool              `json:"dead"` // the driver process crashed or hung on this job (see Generate)
	Warnings []string          `json:"warnings"`
	Outputs  map[string]string `json:"outputs"`
	Steps    []GenStep         `json:"steps"`
}

func pipe(bin string, dir string, timeout time.Duration, in any, each func(json.RawMessage) error) error {
	var buf bytes.Buffer
	enc := json.NewEncoder(&buf)
	enc.SetEscapeHTML(false)
	switch v := in.(type) {
	case []GenJob:
		for _, j := range v {
			_ = enc.Encode(j)
		}
	case []RunJob:
		for _, j := range v {
			_ = enc.Encode(j)
		}
	}
	ctx, cancel := context.WithTimeout(context.Background(), timeout)
	defer cancel()
	cmd := exec.CommandContext(ctx, bin)
	cmd.Dir = dir
	cmd.Stdin = &buf
	var out, errb bytes.Buffer
	cmd.Stdout = &out
	cmd.Stderr = &errb
	err := cmd.Run()
	if ctx.Err() != nil {
		return fmt.Errorf("%s: timeout", filepath.Base(bin))
	}
	if err != nil {
		return fmt.Errorf("%s: %v\n%s", filepath.Base(bin), err, tail(errb.String(), 2000))
	}
	sc := bufio.NewScanner(&out)
	sc.Buffer(make([]byte, 1<<20), 1<<28)
	for sc.Scan() {
		if err := each(append(json.RawMessage{}, sc.Bytes()...)); err != nil {
			return err
		}
	}
	return nil
}

func tail(s string, n int) string {
	if len(s) > n {
		return s[len(s)-n:]
	}
	return s
}

// Generate runs the real generator on the jobs (in-process in the driver, 16 at a time).
//
// The generator can take the whole driver process down (a stack overflow from unbounded recursion is
// fatal in Go) or never return: the batch is then bisected until the offending job is isolated, and that
// job is reported with Dead = true -- an observation ("generation crashed or did not terminate"), not an
// infrastructure failure.
func (s *Scratch) Generate(jobs []GenJob) (map[string]*GenResult, error) {
	res := map[string]*GenResult{}
	var rec func(js []GenJob, depth int) error
	rec = func(js []GenJob, depth int) error {
		if len(js) == 0 {
			return nil
		}
		part := map[string]*GenResult{}
		timeout := 60*time.Second + time.Duration(len(js))*20*time.Millisecond
		err := pipe(filepath.Join(s.Dir, "gendrv.bin"), s.Dir, timeout, js, func(m json.RawMessage) error {
			var r GenResult
			if err := json.Unmarshal(m, &r); err != nil {
				return err
			}
			part[r.ID] = &r
			return nil
		})
		if err == nil {
			for k, v := range part {
				res[k] = v
			}
			return nil
		}
		if len(js) == 1 {
			res[js[0].ID] = &GenResult{ID: js[0].ID, Dead: true, Panic: "FATAL: the generator process died or hung on this job: " + tail(err.Error(), 600)}
			return nil
		}
		if depth > 24 {
			return err
		}
		h := len(js) / 2
		if err := rec(js[:h], depth+1); err != nil {
			return err
		}
		return rec(js[h:], depth+1)
	}
	err := rec(jobs, 0)
	return res, err
}

var rePkg = regexp.MustCompile(`^# (\S+)`)

// BuildAll type-checks and compiles every package below rel (e.g. "./gen/...") and returns the import
// paths (relative to the module) of those that failed, with the compiler's messages.
func (s *Scratch) BuildAll(rel string) (map[string]string, error) {
	out, err := s.goCmd(60*time.Minute, "build", "-gcflags=-e", rel)
	failed := map[string]string{}
	if err == nil {
		return failed, nil
	}
	cur := ""
	for _, l := range strings.Split(string(out), "\n") {
		if m := rePkg.FindStringSubmatch(l); m != nil {
			cur = strings.TrimPrefix(m[1], "vscratch/")
			failed[cur] = ""
			continue
		}
		if cur != "" {
			if len(failed[cur]) < 1500 {
				failed[cur] += l + "\n"
			}
		} else if strings.Contains(l, ".go:") {
			// syntax errors are reported without a "# pkg" header: path/to/file.go:line:col
			p := strings.SplitN(l, ":", 2)[0]
			pk := filepath.ToSlash(filepath.Dir(p))
			failed[pk] += l + "\n"
		}
	}
	if len(failed) == 0 {
		return nil, fmt.Errorf("go build %s failed without package diagnostics: %v\n%s", rel, err, tail(string(out), 3000))
	}
	return failed, nil
}

// BuildJobs compiles the packages below ./gen/<job>/ for every job. A package that cannot even be LOADED (import of
// a package that does not exist, import cycle) makes `go build` stop before it compiles anything, which would
// hide the compile errors of every other job: jobs with load errors are set aside and the rest is built again.
// Returns job -> first diagnostics for every job with a load or compile error.
func (s *Scratch) BuildJobs(jobs []string) (map[string]string, error) {
	bad := map[string]string{}
	remaining := append([]string{}, jobs...)
	for iter := 0; iter < 6 && len(remaining) > 0; iter++ {
		args := []string{"build", "-gcflags=-e"}
		n := 0
		for _, j := range remaining {
			if st, err := os.Stat(filepath.Join(s.Mod, "gen", j)); err == nil && st.IsDir() { // a job may emit no file at all
				args = append(args, "./gen/"+j+"/...")
				n++
			}
		}
		if n == 0 {
			return bad, nil
		}
		out, err := s.goCmd(60*time.Minute, args...)
		if err == nil {
			return bad, nil
		}
		loadErr := false
		found := 0
		cur := ""
		jobOf := func(path string) string { // gen/<job>/...
			parts := strings.Split(filepath.ToSlash(path), "/")
			for i, p := range parts {
				if p == "gen" && i+1 < len(parts) {
					return parts[i+1]
				}
			}
			return ""
		}
		for _, l := range strings.Split(string(out), "\n") {
			if m := rePkg.FindStringSubmatch(l); m != nil {
				cur = jobOf(m[1])
				if cur != "" && bad[cur] == "" {
					bad[cur] = "compile: "
					found++
				}
				continue
			}
			if cur != "" && strings.HasPrefix(bad[cur], "compile: ") {
				if len(bad[cur]) < 600 {
					bad[cur] += l + " "
				}
				continue
			}
			if strings.Contains(l, ".go:") || strings.HasPrefix(l, "package ") || strings.Contains(l, "import cycle") {
				// load error: path/to/file.go:line:col: message   |   package a imports b: import cycle
				j := jobOf(strings.SplitN(l, ":", 2)[0])
				if j == "" {
					for _, w := range strings.Fields(l) {
						if j = jobOf(w); j != "" {
							break
						}
					}
				}
				if j != "" && bad[j] == "" {
					bad[j] = "load: " + l
					loadErr = true
					found++
				}
			}
		}
		if found == 0 {
			return nil, fmt.Errorf("go build failed without diagnostics that name a job: %v\n%s", err, tail(string(out), 3000))
		}
		if !loadErr {
			return bad, nil
		}
		var next []string
		for _, j := range remaining {
			if bad[j] == "" {
				next = append(next, j)
			}
		}
		remaining = next
	}
	return bad, nil
}

type Prog struct {
	Key     string // registry key
	PkgPath string // import path relative to module, e.g. "gen/u000001"
	Type    string // root type name
}

// BuildRunner generates the registry for the given programs and builds the runner binary.
func (s *Scratch) BuildRunner(name string, progs []Prog) (string, error) {
	dir := filepath.Join(s.Mod, name)
	if err := os.MkdirAll(dir, 0o755); err != nil {
		return "", err
	}
	if err := os.WriteFile(filepath.Join(dir, "main.go"), []byte(runnerSrc), 0o644); err != nil {
		return "", err
	}
	var b strings.Builder
	b.WriteString("package main\n\nimport (\n")
	for i, p := range progs {
		fmt.Fprintf(&b, "\tp%d %q\n", i, "vscratch/"+p.PkgPath)
	}
	b.WriteString(")\n\nvar registry = map[string]func() any{\n")
	for i, p := range progs {
		fmt.Fprintf(&b, "\t%q: func() any { return new(p%d.%s) },\n", p.Key, i, p.Type)
	}
	b.WriteString("}\n")
	if err := os.WriteFile(filepath.Join(dir, "registry.go"), []byte(b.String()), 0o644); err != nil {
		return "", err
	}
	bin := filepath.Join(s.Dir, name+".bin")
	out, err := s.goCmd(60*time.Minute, "build", "-o", bin, "./"+name)
	if err != nil {
		return "", fmt.Errorf("building runner failed: %v\n%s", err, tail(string(out), 4000))
	}
	return bin, nil
}

type Call struct {
	Text  string `json:"text"`
	Fmt   string `json:"fmt"`
	Prior string `json:"prior,omitempty"`
}

type RunJob struct {
	Unit  string `json:"unit"`
	Prog  string `json:"prog"`
	Calls []Call `json:"calls"`
}

type Res struct {
	Err       bool   `json:"err"`
	Msg       string `json:"msg"`
	Panic     bool   `json:"panic"`
	PanicMsg  string `json:"panicmsg"`
	Out       string `json:"out"`
	Dump      string `json:"dump"`
	MarshErr  string `json:"marsherr"`
	Unchanged bool   `json:"unchanged"`
	PriorErr  string `json:"priorerr"`
}

type RunOut struct {
	Unit  string            `json:"unit"`
	Prog  string            `json:"prog"`
	Miss  bool              `json:"miss"`
	Res   []Res             `json:"res"`
	Types map[string]string `json:"types"`
}

// Run executes the jobs in the runner. A generated method can take the whole process down (stack
// overflow from unbounded recursion, or a hang): the batch is then bisected until the offending job
// is isolated, and every call of that job is reported as panicked (fatal), so the crash is an
// observation instead of an infrastructure failure.
func (s *Scratch) Run(bin string, jobs []RunJob) (map[string]*RunOut, error) {
	res := map[string]*RunOut{}
	var rec func(js []RunJob, timeout time.Duration) error
	rec = func(js []RunJob, timeout time.Duration) error {
		if len(js) == 0 {
			return nil
		}
		part := map[string]*RunOut{}
		err := pipe(bin, s.Dir, timeout, js, func(m json.RawMessage) error {
			var r RunOut
			if err := json.Unmarshal(m, &r); err != nil {
				return err
			}
			part[r.Unit] = &r
			return nil
		})
		if err == nil {
			for k, v := range part {
				res[k] = v
			}
			return nil
		}
		if len(js) == 1 {
			j := js[0]
			if len(j.Calls) > 1 { // isolate the offending call(s)
				h := len(j.Calls) / 2
				a, b := j, j
				a.Calls, b.Calls = j.Calls[:h], j.Calls[h:]
				if err := rec([]RunJob{a}, time.Minute); err != nil {
					return err
				}
				first := res[j.Unit]
				if err := rec([]RunJob{b}, time.Minute); err != nil {
					return err
				}
				second := res[j.Unit]
				first.Res = append(first.Res, second.Res...)
				if len(first.Types) == 0 {
					first.Types = second.Types
				}
				res[j.Unit] = first
				return nil
			}
			o := &RunOut{Unit: j.Unit, Prog: j.Prog, Types: map[string]string{}}
			for range j.Calls {
				o.Res = append(o.Res, Res{Panic: true, PanicMsg: "FATAL: the runner process died or hung while executing this call: " + tail(err.Error(), 600)})
			}
			res[j.Unit] = o
			return nil
		}
		h := len(js) / 2
		if err := rec(js[:h], 2*time.Minute); err != nil {
			return err
		}
		return rec(js[h:], 2*time.Minute)
	}
	err := rec(jobs, 30*time.Minute)
	return res, err
}

// WarmBase builds the base Go build cache at dir (see seedCache): the generator driver, the CLI, the runner's
// and the generated code's dependencies are compiled once with GOCACHE=dir.
func WarmBase(dir string) error {
	_ = os.RemoveAll(dir)
	if err := os.MkdirAll(dir, 0o755); err != nil {
		return err
	}
	base := os.Getenv("TMPDIR")
	if base == "" {
		base = "/tmp"
	}
	d, err := os.MkdirTemp(base, "vcheck-warm-")
	if err != nil {
		return err
	}
	defer os.RemoveAll(d)
	s := &Scratch{Dir: d, Mod: filepath.Join(d, "mod"), Cache: dir}
	if err := os.MkdirAll(s.Mod, 0o755); err != nil {
		return err
	}
	if err := s.InitModule(); err != nil {
		return err
	}
	if _, err := s.BuildCLI(); err != nil {
		return err
	}
	warm := `package main

import (
	_ "bufio"
	_ "bytes"
	_ "encoding"
	_ "encoding/json"
	_ "errors"
	_ "fmt"
	_ "math"
	_ "net/netip"
	_ "os"
	_ "reflect"
	_ "regexp"
	_ "runtime/debug"
	_ "strings"
	_ "sync"
	_ "time"

	_ "github.com/atombender/go-jsonschema/pkg/types"
	_ "github.com/go-viper/mapstructure/v2"
	_ "gopkg.in/yaml.v3"
)

func main() {}
`
	if err := os.MkdirAll(filepath.Join(s.Mod, "warm"), 0o755); err != nil {
		return err
	}
	if err := os.WriteFile(filepath.Join(s.Mod, "warm", "main.go"), []byte(warm), 0o644); err != nil {
		return err
	}
	if out, err := s.goCmd(10*time.Minute, "build", "-o", filepath.Join(s.Dir, "warm.bin"), "./warm"); err != nil {
		return fmt.Errorf("warming the build cache failed: %v\n%s", err, out)
	}
	// the flags the checks compile generated packages with (-gcflags=-e) key the cache differently
	if out, err := s.goCmd(10*time.Minute, "build", "-gcflags=-e", "-o", filepath.Join(s.Dir, "warm2.bin"), "./warm"); err != nil {
		return fmt.Errorf("warming the build cache failed: %v\n%s", err, out)
	}
	return nil
}
