// Package tlc runs the TLC model checker on a module of /verif/spec inside a scratch directory.
package tlc

import (
	"bufio"
	"bytes"
	"context"
	"fmt"
	"io"
	"os"
	"os/exec"
	"path/filepath"
	"regexp"
	"sort"
	"strconv"
	"strings"
	"time"
)

const (
	jar  = "/opt/veriftools/tla/tla2tools.jar"
	deps = "/opt/veriftools/tla/CommunityModules-deps.jar"
)

type Result struct {
	Generated   int64
	Distinct    int64
	Prints      []string // payloads of PrintT("...") lines, unquoted
	InvViolated string   // name of a violated invariant, "" if none
	PostFailed  bool
	Failed      bool   // TLC reported an error other than an invariant violation
	Tail        string // last part of the output, for diagnostics
	WallS       float64
	Cmd         string
	// Actions (only with Opts.Coverage): per named action of the specification, [distinct, generated] successor
	// states as printed by TLC's -coverage statistics. An action with generated = 0 was never enabled: whatever
	// the run claims about it is vacuous.
	Actions map[string][2]int64
}

// MergeActions adds the action counts of r to dst (several configurations of one machine).
func MergeActions(dst map[string][2]int64, r *Result) {
	for k, v := range r.Actions {
		o := dst[k]
		dst[k] = [2]int64{o[0] + v[0], o[1] + v[1]}
	}
}

// NeverTaken lists the actions of the given modules that generated no state at all.
func NeverTaken(acts map[string][2]int64, ignore ...string) []string {
	var out []string
	for k, v := range acts {
		skip := false
		for _, ig := range ignore {
			skip = skip || strings.HasSuffix(k, "."+ig) || k == ig
		}
		if !skip && v[1] == 0 {
			out = append(out, k)
		}
	}
	sort.Strings(out)
	return out
}

var (
	reStates = regexp.MustCompile(`^(\d+) states generated, (\d+) distinct states found`)
	reInv    = regexp.MustCompile(`^Error: Invariant (\S+) is violated`)
	reAct    = regexp.MustCompile(`^<(\w+) line \d+, col \d+ to line \d+, col \d+ of module (\w+)>: (\d+):(\d+)$`)
)

// SpecDir locates /verif/spec: $VERIF_HOME/spec, ./spec, or next to the executable.
func SpecDir() string {
	if h := os.Getenv("VERIF_HOME"); h != "" {
		return filepath.Join(h, "spec")
	}
	if st, err := os.Stat("spec"); err == nil && st.IsDir() {
		p, _ := filepath.Abs("spec")
		return p
	}
	exe, _ := os.Executable()
	return filepath.Join(filepath.Dir(filepath.Dir(exe)), "spec")
}

type Opts struct {
	Module   string // e.g. "MC_C05"
	Cfg      string // full text of the .cfg
	Dir      string // scratch dir for this run (created)
	Workers  int
	Timeout  time.Duration
	Files    map[string]string // extra files to place next to the spec (name -> source path)
	Simulate string            // if set: "-simulate" argument value e.g. "num=100"
	Depth    int
	Seed     int64
	HeapGB   int
	DFS      bool
	Coverage bool // -coverage 1: Result.Actions is filled
	// OnPrint, if set, is given every printed value as it arrives; returning true consumes it (it is not
	// kept in Result.Prints).
	OnPrint func(string) bool
}

func Run(o Opts) (*Result, error) {
	if err := os.MkdirAll(o.Dir, 0o755); err != nil {
		return nil, err
	}
	specs, _ := filepath.Glob(filepath.Join(SpecDir(), "*.tla"))
	for _, f := range specs {
		b, err := os.ReadFile(f)
		if err != nil {
			return nil, err
		}
		if err := os.WriteFile(filepath.Join(o.Dir, filepath.Base(f)), b, 0o644); err != nil {
			return nil, err
		}
	}
	for name, src := range o.Files {
		if err := os.Symlink(src, filepath.Join(o.Dir, name)); err != nil {
			return nil, err
		}
	}
	if err := os.WriteFile(filepath.Join(o.Dir, o.Module+".cfg"), []byte(o.Cfg), 0o644); err != nil {
		return nil, err
	}
	if o.Workers <= 0 {
		o.Workers = 1
	}
	if o.Timeout == 0 {
		o.Timeout = 10 * time.Minute
	}
	if o.HeapGB == 0 {
		o.HeapGB = 6
	}
	tmp := filepath.Join(o.Dir, "tmp")
	_ = os.MkdirAll(tmp, 0o755)
	args := []string{"-XX:+UseParallelGC", fmt.Sprintf("-Xmx%dg", o.HeapGB), "-Xss64m", "-Djava.io.tmpdir=" + tmp}
	if o.DFS {
		args = append(args, "-Dtlc2.tool.queue.IStateQueue=StateDeque")
	}
	args = append(args, "-cp", jar+":"+deps, "tlc2.TLC", "-workers", strconv.Itoa(o.Workers),
		"-metadir", filepath.Join(o.Dir, "md"), "-noGenerateSpecTE")
	if o.Simulate != "" {
		args = append(args, "-simulate", o.Simulate)
		if o.Depth > 0 {
			args = append(args, "-depth", strconv.Itoa(o.Depth))
		}
	}
	if o.Coverage {
		args = append(args, "-coverage", "1")
	}
	if o.Seed != 0 {
		args = append(args, "-seed", strconv.FormatInt(o.Seed, 10))
	}
	args = append(args, o.Module+".tla")
	ctx, cancel := context.WithTimeout(context.Background(), o.Timeout)
	defer cancel()
	cmd := exec.CommandContext(ctx, "java", args...)
	cmd.Dir = o.Dir
	// the output is read as it comes (a thorough enumeration prints hundreds of megabytes of units)
	pipe, err := cmd.StdoutPipe()
	if err != nil {
		return nil, err
	}
	cmd.Stderr = cmd.Stdout
	t0 := time.Now()
	res := &Result{Cmd: "java " + strings.Join(args, " ")}
	if err := cmd.Start(); err != nil {
		return res, err
	}
	sc := bufio.NewScanner(pipe)
	sc.Buffer(make([]byte, 1<<20), 1<<28)
	var tail []string
	for sc.Scan() {
		line := sc.Text()
		if strings.HasPrefix(line, "\"") && strings.HasSuffix(line, "\"") {
			if s, err := strconv.Unquote(line); err == nil {
				if o.OnPrint != nil && o.OnPrint(s) {
					continue
				}
				res.Prints = append(res.Prints, s)
				continue
			}
		}
		if m := reStates.FindStringSubmatch(line); m != nil {
			res.Generated, _ = strconv.ParseInt(m[1], 10, 64)
			res.Distinct, _ = strconv.ParseInt(m[2], 10, 64)
		}
		if m := reInv.FindStringSubmatch(line); m != nil {
			res.InvViolated = m[1]
		}
		if o.Coverage {
			if m := reAct.FindStringSubmatch(line); m != nil && m[1] != "Init" {
				if res.Actions == nil {
					res.Actions = map[string][2]int64{}
				}
				d, _ := strconv.ParseInt(m[3], 10, 64)
				g, _ := strconv.ParseInt(m[4], 10, 64)
				// the statistics are printed periodically and at the end: the last block wins
				res.Actions[m[2]+"."+m[1]] = [2]int64{d, g}
				continue
			}
			if strings.HasPrefix(line, "  line ") || strings.HasPrefix(line, "  |") {
				continue
			}
		}
		if strings.Contains(line, "Postcondition") && strings.Contains(line, "violated") ||
			strings.Contains(line, "Error: The postcondition") {
			res.PostFailed = true
		}
		if strings.HasPrefix(line, "Error:") && reInv.FindStringSubmatch(line) == nil {
			res.Failed = true
		}
		tail = append(tail, line)
		if len(tail) > 60 {
			tail = tail[1:]
		}
	}
	_, _ = io.Copy(io.Discard, pipe)
	runErr := cmd.Wait()
	res.WallS = time.Since(t0).Seconds()
	if ctx.Err() != nil {
		return res, fmt.Errorf("tlc %s: timeout after %s", o.Module, o.Timeout)
	}
	res.Tail = strings.Join(tail, "\n")
	if runErr != nil && res.InvViolated == "" && !res.Failed && !res.PostFailed {
		res.Failed = true
	}
	return res, nil
}

// Apalache runs `apalache-mc check --length=0 --init=Init --inv=<inv>` on a module of /verif/spec inside a
// scratch directory and returns the checker's outcome ("NoError", "Error", ...).
func Apalache(module, inv, dir string, timeout time.Duration) (string, float64, error) {
	if err := os.MkdirAll(dir, 0o755); err != nil {
		return "", 0, err
	}
	b, err := os.ReadFile(filepath.Join(SpecDir(), module+".tla"))
	if err != nil {
		return "", 0, err
	}
	if err := os.WriteFile(filepath.Join(dir, module+".tla"), b, 0o644); err != nil {
		return "", 0, err
	}
	ctx, cancel := context.WithTimeout(context.Background(), timeout)
	defer cancel()
	cmd := exec.CommandContext(ctx, "apalache-mc", "check", "--length=0", "--init=Init", "--inv="+inv,
		"--out-dir="+filepath.Join(dir, "out-"+inv), module+".tla")
	cmd.Dir = dir
	cmd.Env = append(os.Environ(), "JVM_ARGS=-Xmx2g -Djava.io.tmpdir="+dir)
	var out bytes.Buffer
	cmd.Stdout = &out
	cmd.Stderr = &out
	t0 := time.Now()
	_ = cmd.Run()
	wall := time.Since(t0).Seconds()
	if ctx.Err() != nil {
		return "", wall, fmt.Errorf("apalache %s %s: timeout", module, inv)
	}
	re := regexp.MustCompile(`The outcome is: (\w+)`)
	m := re.FindStringSubmatch(out.String())
	if m == nil {
		s := out.String()
		if len(s) > 600 {
			s = s[len(s)-600:]
		}
		return "", wall, fmt.Errorf("apalache %s %s: no outcome\n%s", module, inv, s)
	}
	return m[1], wall, nil
}
