// Package cli drives the real command line tool (built from /repo's working tree) through the scenarios
// enumerated by spec/MC_C18.tla and records what happened: exit status, stdout, stderr, file-system delta.
package cli

import (
	"bytes"
	"context"
	"crypto/sha256"
	"encoding/hex"
	"encoding/json"
	"fmt"
	"go/parser"
	"go/token"
	"io/fs"
	"os"
	"os/exec"
	"path/filepath"
	"sort"
	"strings"
	"time"
)

type Arg struct {
	Status string `json:"status"`
	Fault  string `json:"fault"`
	Pos    string `json:"pos"`
}

type Scenario struct {
	Flags   string `json:"flags"`
	Args    []Arg  `json:"args"`
	OutMode string `json:"outmode"`
	IOFails bool   `json:"iofails"`
}

type Obs struct {
	Exit          int      `json:"exit"`
	TimedOut      bool     `json:"timedout"`
	Stdout        bool     `json:"stdout"`       // anything written to stdout
	StdoutGo      bool     `json:"stdoutgo"`     // stdout parses as a Go file
	Stderr        bool     `json:"stderr"`       // anything written to stderr
	Panic         bool     `json:"panic"`        // stderr shows a Go panic / fatal error
	Created       []string `json:"created"`      // files and directories that exist afterwards but not before
	Modified      []string `json:"modified"`     // files whose content changed
	OutputsOK     int      `json:"outputsok"`    // expected output files that exist and parse as Go
	OutputsThere  int      `json:"outputsthere"` // expected output files that exist, are not the sentinel and are not empty
	OutputsWanted int      `json:"outputswanted"`
	StderrText    string   `json:"-"`
	Cmd           []string `json:"-"`
}

func frag(kind string) any {
	m := func(kv ...any) map[string]any {
		r := map[string]any{}
		for i := 0; i < len(kv); i += 2 {
			r[kv[i].(string)] = kv[i+1]
		}
		return r
	}
	switch kind {
	case "unknowntype":
		return m("type", "strng")
	case "unknowntypefmt":
		return m("type", "strng", "format", "date-time")
	case "unknowntypekw":
		return m("type", "intger", "minimum", 1, "maximum", 5, "default", 2)
	case "missingdef":
		return m("$ref", "#/$defs/Nope")
	case "missingfile":
		return m("$ref", "nope.json")
	case "refhash":
		return m("$ref", "#")
	case "refhashslash":
		return m("$ref", "#/")
	case "refdefsempty":
		return m("$ref", "#/$defs/")
	case "refother":
		return m("$ref", "#/other/x")
	case "refdefsbare":
		return m("$ref", "#/$defs")
	case "refdefinitionsbare":
		return m("$ref", "#/definitions")
	case "refuppercase":
		return m("$ref", "#/$DEFS/Nope")
	case "emptyenum":
		return m("enum", []any{})
	case "nonprimenum":
		return m("enum", []any{[]any{1}, m("a", 1)})
	case "intenumstr":
		return m("type", "integer", "enum", []any{1, "a"})
	case "multiaddl":
		return m("type", "object", "properties", m("p", m("type", "string")), "additionalProperties", m("type", []any{"string", "integer"}))
	case "defaultemptykey":
		return m("type", "object", "properties", m("k", m("type", "string")), "default", m("", 1))
	case "arraynoitems":
		return m("type", "array")
	case "typednonprimenum": // a non-primitive value in an enum that declares its type
		return m("type", "string", "enum", []any{m("x", 1), "s"})
	case "nullschema":
		return nil
	case "selfallof": // injected as definition F: it lists itself as an allOf branch
		return m("type", "object", "allOf", []any{m("$ref", "#/$defs/F")})
	case "selfanyof":
		return m("type", "object", "anyOf", []any{m("$ref", "#/$defs/F"), m("type", "object")})
	case "recallof": // a property that wraps the reference to its own definition in an allOf
		return m("type", "object", "properties", m("v", m("type", "integer"), "child", m("allOf", []any{m("$ref", "#/$defs/F")})))
	case "badgotype": // generates, but the emitted text is not valid Go (the tool warns and writes it unformatted)
		return m("type", "string", "goJSONSchema", m("type", "map[string"))
	}
	return m("type", "strng")
}

// baseSchema returns a valid, moderately rich schema with the given $id.
func baseSchema(id string, k int) map[string]any {
	var v map[string]any
	_ = json.Unmarshal([]byte(fmt.Sprintf(`{
 "$id": %q, "title": "Arg %d", "type": "object",
 "properties": {
  "name": {"type": "string", "minLength": 1, "description": "a name"},
  "count": {"type": "integer", "minimum": 0, "default": 1},
  "n": {"type": "object", "properties": {"deep": {"type": "number"}}, "required": ["deep"]},
  "arr": {"type": "array", "items": {"type": "string"}, "maxItems": 3},
  "kind": {"enum": ["a", "b"]},
  "d": {"$ref": "#/$defs/D"},
  "a": {"allOf": [{"type": "object", "properties": {"x": {"type": "string"}}}, {"type": "object", "properties": {"y": {"type": "integer"}}}]},
  "o": {"anyOf": [{"type": "object", "properties": {"x": {"type": "string"}}, "required": ["x"]}, {"type": "object", "properties": {"y": {"type": "integer"}}, "required": ["y"]}]},
  "br": {"allOf": [{"$ref": "#/$defs/Br"}, {"type": "object", "properties": {"z": {"type": "string"}}}]}
 },
 "required": ["name"],
 "$defs": {"D": {"type": "object", "properties": {"v": {"type": "boolean"}}}, "Br": {"type": "object", "properties": {"bx": {"type": "string"}}}}
}`, id, k)), &v)
	return v
}

func props(m map[string]any) map[string]any { return m["properties"].(map[string]any) }

// Materialize writes the input files of a scenario below dir and returns the command line arguments and
// the output files a successful run must produce.
func Materialize(s *Scenario, dir string) (args []string, wanted []string, err error) {
	in := filepath.Join(dir, "in")
	if err = os.MkdirAll(in, 0o755); err != nil {
		return
	}
	if s.Flags != "nopackage" {
		args = append(args, "-p", "main")
	}
	switch s.Flags {
	case "badmapping":
		args = append(args, "--schema-package", "noequalsign")
	case "unknownflag":
		args = append(args, "--no-such-flag")
	case "badbool":
		args = append(args, "--only-models=maybe")
	}
	switch s.OutMode {
	case "file":
		target := filepath.Join(dir, "out", "sub", "gen.go")
		_ = os.MkdirAll(filepath.Dir(target), 0o755)
		if err = os.WriteFile(target, []byte("// sentinel: must survive a failing run\n"), 0o644); err != nil {
			return
		}
		args = append(args, "-o", target)
		wanted = append(wanted, target)
	}
	var files []string
	for k, a := range s.Args {
		name := fmt.Sprintf("arg%d.json", k)
		if a.Fault == "badyaml" {
			name = fmt.Sprintf("arg%d.yaml", k)
		}
		p := filepath.Join(in, name)
		id := fmt.Sprintf("https://example.com/arg%d", k)
		if s.OutMode == "perfile" {
			target := filepath.Join(dir, "out", fmt.Sprintf("p%d", k), fmt.Sprintf("g%d.go", k))
			if s.Flags != "nopackage" { // "no package": neither -p nor any --schema-package
				args = append(args, "--schema-package="+id+"=example.com/m/p"+fmt.Sprint(k))
			}
			args = append(args, "--schema-output="+id+"="+target)
			wanted = append(wanted, target)
		}
		files = append(files, p)
		sch := baseSchema(id, k)
		write := func(path string, v any) error {
			b, e := json.MarshalIndent(v, "", " ")
			if e != nil {
				return e
			}
			return os.WriteFile(path, b, 0o644)
		}
		if a.Status == "ok" {
			if err = write(p, sch); err != nil {
				return
			}
			continue
		}
		valid, _ := json.MarshalIndent(sch, "", " ")
		if a.Pos == "file" {
			switch a.Fault {
			case "missing":
			case "isdir":
				err = os.MkdirAll(p, 0o755)
			case "dangling":
				err = os.Symlink(filepath.Join(in, "does-not-exist.json"), p)
			case "empty":
				err = os.WriteFile(p, nil, 0o644)
			case "truncated":
				err = os.WriteFile(p, valid[:len(valid)/2], 0o644)
			case "garbage":
				err = os.WriteFile(p, []byte("\x00\x01\xfe\xffnot json at all {{{"), 0o644)
			case "bom":
				err = os.WriteFile(p, append([]byte("\xef\xbb\xbf"), valid...), 0o644)
			case "jsonnull":
				err = os.WriteFile(p, []byte("null"), 0o644)
			case "jsonarray":
				err = os.WriteFile(p, []byte("[]"), 0o644)
			case "jsonstring":
				err = os.WriteFile(p, []byte(`"schema"`), 0o644)
			case "jsonnumber":
				err = os.WriteFile(p, []byte("5"), 0o644)
			case "typenum":
				sch["type"] = 5
				err = write(p, sch)
			case "propsnum":
				sch["properties"] = 5
				err = write(p, sch)
			case "badyaml":
				err = os.WriteFile(p, []byte("type: object\nproperties:\n  a: [unclosed\n   b: {\n"), 0o644)
			default:
				err = fmt.Errorf("unknown file fault %q", a.Fault)
			}
			if err != nil {
				return
			}
			continue
		}
		if a.Fault == "droppeddef" {
			// the allOf branch {"$ref": "#/$defs/Br"} every argument carries now points at a definition THIS document
			// lacks (other documents of the run still define it, under the same reference text)
			delete(sch["$defs"].(map[string]any), "Br")
			if err = write(p, sch); err != nil {
				return
			}
			continue
		}
		f := frag(a.Fault)
		obj := func(kv ...any) map[string]any {
			r := map[string]any{}
			for i := 0; i < len(kv); i += 2 {
				r[kv[i].(string)] = kv[i+1]
			}
			return r
		}
		switch a.Pos {
		case "property":
			props(sch)["f"] = f
		case "nested":
			props(props(sch)["n"].(map[string]any))["f"] = f
		case "item":
			props(sch)["farr"] = obj("type", "array", "items", f)
		case "definition":
			sch["$defs"].(map[string]any)["F"] = f
			props(sch)["usesF"] = obj("$ref", "#/$defs/F")
		case "allof":
			br := props(sch)["a"].(map[string]any)["allOf"].([]any)
			props(sch)["a"].(map[string]any)["allOf"] = append(br, obj("type", "object", "properties", obj("g", f)))
		case "anyof":
			br := props(sch)["o"].(map[string]any)["anyOf"].([]any)
			props(sch)["o"].(map[string]any)["anyOf"] = append(br, obj("type", "object", "properties", obj("g", f)))
		case "allofbranch":
			br := props(sch)["a"].(map[string]any)["allOf"].([]any)
			props(sch)["a"].(map[string]any)["allOf"] = append(br, f)
		case "anyofbranch":
			br := props(sch)["o"].(map[string]any)["anyOf"].([]any)
			props(sch)["o"].(map[string]any)["anyOf"] = append(br, f)
		case "reffile":
			sub := fmt.Sprintf("sub%d.json", k)
			props(sch)["r"] = obj("$ref", sub)
			var subDoc any = obj("$id", id+"/sub", "type", "object", "properties", obj("f", f))
			switch a.Fault {
			case "norootempty":
				subDoc = obj()
			case "norootdefsonly":
				subDoc = obj("$id", id+"/sub", "$defs", obj("X", obj("type", "string")))
			}
			if err = write(filepath.Join(in, sub), subDoc); err != nil {
				return
			}
			if s.OutMode == "perfile" {
				target := filepath.Join(dir, "out", fmt.Sprintf("p%d", k), fmt.Sprintf("s%d.go", k))
				args = append(args, "--schema-package="+id+"/sub=example.com/m/p"+fmt.Sprint(k), "--schema-output="+id+"/sub="+target)
			}
		default:
			err = fmt.Errorf("unknown position %q", a.Pos)
			return
		}
		if err = write(p, sch); err != nil {
			return
		}
	}
	if s.Flags != "noargs" {
		args = append(args, files...)
	}
	return
}

type snap map[string]string // path -> "dir" | sha256

func snapshot(dir string) snap {
	s := snap{}
	_ = filepath.WalkDir(dir, func(p string, d fs.DirEntry, err error) error {
		if err != nil {
			return nil
		}
		rel, _ := filepath.Rel(dir, p)
		if d.IsDir() {
			s[rel] = "dir"
			return nil
		}
		if d.Type()&fs.ModeSymlink != 0 {
			t, _ := os.Readlink(p)
			s[rel] = "link:" + t
			return nil
		}
		b, _ := os.ReadFile(p)
		h := sha256.Sum256(b)
		s[rel] = hex.EncodeToString(h[:])
		return nil
	})
	return s
}

func parsesAsGo(src []byte) bool {
	_, err := parser.ParseFile(token.NewFileSet(), "x.go", src, 0)
	return err == nil
}

// Run executes the tool on a materialised scenario.
func Run(bin, dir string, args []string, wanted []string, stdin []byte) *Obs {
	before := snapshot(dir)
	ctx, cancel := context.WithTimeout(context.Background(), 20*time.Second)
	defer cancel()
	cmd := exec.CommandContext(ctx, bin, args...)
	cmd.Dir = dir
	var so, se bytes.Buffer
	cmd.Stdout, cmd.Stderr = &so, &se
	if stdin != nil {
		cmd.Stdin = bytes.NewReader(stdin)
	}
	err := cmd.Run()
	o := &Obs{Cmd: append([]string{bin}, args...), OutputsWanted: len(wanted)}
	if ctx.Err() != nil {
		o.TimedOut = true
		o.Exit = 99
	} else if err != nil {
		if ee, ok := err.(*exec.ExitError); ok {
			o.Exit = ee.ExitCode()
		} else {
			o.Exit = 98
		}
	}
	o.Stdout = so.Len() > 0
	o.StdoutGo = o.Stdout && parsesAsGo(so.Bytes())
	o.Stderr = se.Len() > 0
	o.StderrText = se.String()
	if len(o.StderrText) > 1500 {
		o.StderrText = o.StderrText[:1500]
	}
	t := se.String()
	o.Panic = strings.Contains(t, "panic:") || strings.Contains(t, "goroutine ") || strings.Contains(t, "fatal error:") || o.Exit == 2
	after := snapshot(dir)
	for p, h := range after {
		b, ok := before[p]
		if !ok {
			o.Created = append(o.Created, p)
		} else if b != h {
			o.Modified = append(o.Modified, p)
		}
	}
	for p := range before {
		if _, ok := after[p]; !ok {
			o.Modified = append(o.Modified, p+" (removed)")
		}
	}
	sort.Strings(o.Created)
	sort.Strings(o.Modified)
	if o.Created == nil {
		o.Created = []string{}
	}
	if o.Modified == nil {
		o.Modified = []string{}
	}
	for _, w := range wanted {
		if b, err := os.ReadFile(w); err == nil && !bytes.HasPrefix(b, []byte("// sentinel")) {
			if parsesAsGo(b) {
				o.OutputsOK++
			}
			if len(b) > 0 {
				o.OutputsThere++
			}
		}
	}
	return o
}
