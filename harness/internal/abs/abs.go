// Package abs translates between the abstract values of the TLA+ specification (spec/JV.tla) and
// concrete JSON text. It is the trusted printer of DESIGN.md section 4: a table per abstract domain and a
// key-by-key translation of the schema record.
package abs

import (
	"bytes"
	"encoding/json"
	"fmt"
	"math/big"
	"sort"
	"strconv"
	"strings"
)

// Chars maps character ids of JV.CharIds to text (same table as JV.Width).
var Chars = map[string]string{"a": "a", "b": "b", "e2": "é", "w3": "世", "g4": "\U0001F600",
	"pc": "%", "bt": "`", "qt": "\"", "bs": "\\", "nl": "\n", "sp": " ", "d1": "1", "us": "_", "hy": "-", "cr": "\r", "tb": "\t"} // the last nine are used in names / enum values only

var charOf = func() map[rune]string {
	m := map[rune]string{}
	for id, s := range Chars {
		m[[]rune(s)[0]] = id
	}
	return m
}()

// Patterns maps pattern ids of JV.PatIds to regular expressions with identical RE2 / ECMA-262 meaning.
var Patterns = map[string]string{"p_a": "^a", "p_b": "b$", "p_ab": "^[ab]*$", "p_2": "^.{2}$",
	"p_pct": "^[ab%]*$", "p_esc": `^\x61+$`, "p_lit": "^ab$", "p_sub": "ab",
	"p_qt": `^"a"$`, "p_cls": `^\w+\s?$`, "p_bt": "^a`b$",
	"p_tsp": "^a ", "p_lsp": " b$", "p_ws": " ", "p_ttab": "^a\t"}

// Descriptions maps hostile-text ids (spec/MC_C01.tla) to text.
var Descriptions = map[string]string{
	"d_nl":      "first line of a description that is long enough to be wrapped by the comment writer of the generator\nsecond line\n\nfourth line after an empty one",
	"d_cr":      "carriage\rreturn and \r\n windows line end",
	"d_cmt":     "ends a block comment */ and starts one /* again",
	"d_bt":      "has a ` backtick and `two`",
	"d_qt":      "has \"double\" and 'single' quotes and a \\ backslash",
	"d_long":    strings.Repeat("Supercalifragilistic", 15),
	"d_shortnl": "short\ntext",
	"d_slashes": "// looks like a comment already // twice",
	"d_uni":     "ünïcödé 日本語 \U0001F600 and a non-breaking\u00a0space",
	"d_pct":     "100% of %s %d %v %!",
	"d_tab":     "tab\tseparated\tand trailing spaces   ",
}

// IgnoredKeywords: keyword id -> JSON text of its value (spec units list them under "ignored").
var IgnoredKeywords = map[string]string{"uniqueItems": "true", "readOnly": "true", "deprecated": "true", "$comment": `"a comment"`,
	"examples": `[1, "two"]`, "minProperties": "0", "contentEncoding": `"base64"`}

// FormatText holds the canonical string of each format (JV "fmt" documents).
var FormatText = map[string]string{"date": "2006-01-02", "time": "15:04:05", "date-time": "2006-01-02T15:04:05Z",
	"ipv4": "192.0.2.1", "ipv6": "2001:db8::1"}

// FormatVariantText holds further canonical strings per format, keyed "format:variant" (JV.FmtVariants).
var FormatVariantText = map[string]string{
	"date:y0987": "0987-03-01", "date:y0001": "0001-01-01", "date:leap": "2024-02-29",
	"time:midnight": "00:00:00", "time:lastsec": "23:59:59",
	"date-time:offset": "2006-01-02T15:04:05+02:00", "date-time:frac": "2006-01-02T15:04:05.5Z", "date-time:y0987": "0987-03-01T00:00:00Z",
	"ipv4:zero": "0.0.0.0", "ipv4:bcast": "255.255.255.255",
	"ipv6:loop": "::1", "ipv6:long": "2001:db8:0:1:1:1:1:1",
}

type M = map[string]any

func str(v any) string { s, _ := v.(string); return s }

// num turns an abstract numeral into exact decimal text: an integer count of quarters (JV.U = 4), or a
// landmark record {t:"big", sg, e, o} standing for sg*2^e + o.
func num(v any) (string, error) {
	switch x := v.(type) {
	case json.Number:
		h, err := strconv.ParseInt(x.String(), 10, 64)
		if err != nil {
			return "", fmt.Errorf("numeral %v: %w", x, err)
		}
		return halfText(h), nil
	case float64:
		return halfText(int64(x)), nil
	case map[string]any:
		switch str(x["t"]) {
		case "num":
			return num(x["h"])
		case "big":
			sg, _ := strconv.ParseInt(fmt.Sprint(x["sg"]), 10, 64)
			e, _ := strconv.ParseInt(fmt.Sprint(x["e"]), 10, 64)
			o, _ := strconv.ParseInt(fmt.Sprint(x["o"]), 10, 64)
			r := new(big.Int)
			if sg != 0 {
				r.Lsh(big.NewInt(1), uint(e))
				if sg < 0 {
					r.Neg(r)
				}
			}
			r.Add(r, big.NewInt(o))
			return r.String(), nil
		}
	}
	return "", fmt.Errorf("not a numeral: %v", v)
}

func halfText(h int64) string {
	neg := h < 0
	if neg {
		h = -h
	}
	s := strconv.FormatInt(h/4, 10) + [...]string{"", ".25", ".5", ".75"}[h%4]
	if neg {
		s = "-" + s
	}
	return s
}

// Text turns an abstract string (sequence of character ids) into text.
func Text(v any) (string, error) {
	seq, ok := v.([]any)
	if !ok {
		return "", fmt.Errorf("not a char sequence: %v", v)
	}
	var sb strings.Builder
	for _, c := range seq {
		t, ok := Chars[str(c)]
		if !ok {
			return "", fmt.Errorf("unknown char id %v", c)
		}
		sb.WriteString(t)
	}
	return sb.String(), nil
}

func quote(s string) string {
	var b bytes.Buffer
	enc := json.NewEncoder(&b)
	enc.SetEscapeHTML(false)
	_ = enc.Encode(s)
	return strings.TrimRight(b.String(), "\n")
}

// Doc prints an abstract document as JSON text (object keys in the order given).
func Doc(v any) (string, error) {
	d, ok := v.(map[string]any)
	if !ok {
		return "", fmt.Errorf("not a doc: %v", v)
	}
	switch str(d["t"]) {
	case "null":
		return "null", nil
	case "bool":
		if b, _ := d["b"].(bool); b {
			return "true", nil
		}
		return "false", nil
	case "num":
		return num(d["h"])
	case "big":
		return num(d)
	case "str":
		s, err := Text(d["s"])
		if err != nil {
			return "", err
		}
		return quote(s), nil
	case "fmt":
		t, ok := FormatText[str(d["f"])]
		if v := str(d["v"]); v != "" {
			t, ok = FormatVariantText[str(d["f"])+":"+v]
		}
		if !ok {
			return "", fmt.Errorf("unknown format %v", d)
		}
		return quote(t), nil
	case "raw": // raw JSON text, used only by hand-written cases
		return str(d["x"]), nil
	case "arr":
		a, _ := d["a"].([]any)
		parts := make([]string, len(a))
		for i, e := range a {
			s, err := Doc(e)
			if err != nil {
				return "", err
			}
			parts[i] = s
		}
		return "[" + strings.Join(parts, ",") + "]", nil
	case "obj":
		o, _ := d["o"].([]any)
		parts := make([]string, len(o))
		for i, kv := range o {
			m, _ := kv.(map[string]any)
			s, err := Doc(m["v"])
			if err != nil {
				return "", err
			}
			parts[i] = quote(Key(m["k"])) + ":" + s
		}
		return "{" + strings.Join(parts, ",") + "}", nil
	}
	return "", fmt.Errorf("unknown doc tag in %v", v)
}

// Key turns an abstract object key / property name into text. Plain strings stand for themselves;
// a record {cs: [...]} is a sequence of character ids.
func Key(v any) string {
	switch k := v.(type) {
	case string:
		return k
	case map[string]any:
		s, _ := Text(k["cs"])
		return s
	}
	return fmt.Sprint(v)
}

// RefRename lets a packer rename definition names ("N" -> "N_3").
type RefRename func(string) string

// Schema prints an abstract schema as JSON-Schema text. Keys are emitted sorted so that the text is a
// function of the abstract value only.
func Schema(v any, ren RefRename) (string, error) {
	s, ok := v.(map[string]any)
	if !ok {
		return "", fmt.Errorf("not a schema: %v", v)
	}
	if ren == nil {
		ren = func(n string) string { return n }
	}
	keys := make([]string, 0, len(s))
	for k := range s {
		keys = append(keys, k)
	}
	sort.Strings(keys)
	var parts []string
	add := func(k, text string) { parts = append(parts, quote(k)+":"+text) }
	for _, k := range keys {
		val := s[k]
		switch k {
		case "type":
			l, _ := val.([]any)
			if len(l) == 1 {
				add(k, quote(str(l[0])))
			} else {
				b, _ := json.Marshal(l)
				add(k, string(b))
			}
		case "minimum", "maximum", "multipleOf":
			t, err := num(val)
			if err != nil {
				return "", err
			}
			add(k, t)
		case "exclusiveMinimum", "exclusiveMaximum":
			m, _ := val.(map[string]any)
			if str(m["k"]) == "b" {
				add(k, fmt.Sprint(m["b"]))
			} else {
				t, err := num(m["h"])
				if err != nil {
					return "", err
				}
				add(k, t)
			}
		case "minLength", "maxLength", "minItems", "maxItems":
			add(k, fmt.Sprint(val))
		case "pattern":
			p, ok := Patterns[str(val)]
			if !ok {
				return "", fmt.Errorf("unknown pattern id %v", val)
			}
			add(k, quote(p))
		case "ignored": // keywords the tool parses but gives no meaning (the documents of the unit satisfy them anyway)
			l, _ := val.([]any)
			for _, x := range l {
				t, ok := IgnoredKeywords[str(x)]
				if !ok {
					return "", fmt.Errorf("unknown ignored-keyword id %v", x)
				}
				add(str(x), t)
			}
		case "format":
			add(k, quote(str(val)))
		case "title", "description":
			t := str(val)
			if d, ok := Descriptions[t]; ok {
				t = d
			}
			add(k, quote(t))
		case "goJSONSchema":
			b, err := json.Marshal(val)
			if err != nil {
				return "", err
			}
			add(k, string(b))
		case "items":
			t, err := Schema(val, ren)
			if err != nil {
				return "", err
			}
			add(k, t)
		case "properties", "defs", "ldefs":
			l, _ := val.([]any)
			ps := make([]string, len(l))
			for i, e := range l {
				m, _ := e.(map[string]any)
				t, err := Schema(m["s"], ren)
				if err != nil {
					return "", err
				}
				name := Key(m["k"])
				if k == "defs" || k == "ldefs" {
					name = ren(name)
				}
				ps[i] = quote(name) + ":" + t
			}
			out := k
			if k == "defs" {
				out = "$defs"
			}
			if k == "ldefs" {
				out = "definitions"
			}
			add(out, "{"+strings.Join(ps, ",")+"}")
		case "required":
			l, _ := val.([]any)
			ps := make([]string, len(l))
			for i, e := range l {
				ps[i] = quote(Key(e))
			}
			add(k, "["+strings.Join(ps, ",")+"]")
		case "additionalProperties":
			m, _ := val.(map[string]any)
			if str(m["k"]) == "b" {
				add(k, fmt.Sprint(m["b"]))
			} else {
				t, err := Schema(m["s"], ren)
				if err != nil {
					return "", err
				}
				add(k, t)
			}
		case "enum":
			l, _ := val.([]any)
			ps := make([]string, len(l))
			for i, e := range l {
				t, err := Doc(e)
				if err != nil {
					return "", err
				}
				ps[i] = t
			}
			add(k, "["+strings.Join(ps, ",")+"]")
		case "default":
			t, err := Doc(val)
			if err != nil {
				return "", err
			}
			add(k, t)
		case "ref":
			m, _ := val.(map[string]any)
			n := str(m["n"])
			switch str(m["k"]) {
			case "defs":
				add("$ref", quote("#/$defs/"+ren(n)))
			case "definitions":
				add("$ref", quote("#/definitions/"+ren(n)))
			case "file":
				add("$ref", quote(n))
			case "path": // a reference into another document: segments as written + optional definition name
				var segs []string
				if l, ok := m["segs"].([]any); ok {
					for _, x := range l {
						segs = append(segs, str(x))
					}
				}
				t := strings.Join(segs, "/")
				if f := str(m["frag"]); f != "" {
					t += "#/$defs/" + ren(f)
				}
				add("$ref", quote(t))
			default:
				return "", fmt.Errorf("unknown ref kind %v", m)
			}
		case "allOf", "anyOf":
			l, _ := val.([]any)
			ps := make([]string, len(l))
			for i, e := range l {
				t, err := Schema(e, ren)
				if err != nil {
					return "", err
				}
				ps[i] = t
			}
			add(k, "["+strings.Join(ps, ",")+"]")
		default:
			return "", fmt.Errorf("schema key %q has no concretisation", k)
		}
	}
	return "{" + strings.Join(parts, ",") + "}", nil
}

// landmark exponents of JV "big" numerals
var landmarks = []uint{7, 8, 15, 16, 31, 32, 53, 63, 64}

// FromJSON abstracts concrete JSON text into the document encoding of JV. Values outside the abstract
// domain become {t:"odd", x:<text>}, which is JSON-equal to nothing.
func FromJSON(text string) (any, error) {
	dec := json.NewDecoder(strings.NewReader(text))
	dec.UseNumber()
	var v any
	if err := dec.Decode(&v); err != nil {
		return nil, err
	}
	return fromVal(v), nil
}

func odd(x any) any { return M{"t": "odd", "x": fmt.Sprint(x)} }

func fromVal(v any) any {
	switch x := v.(type) {
	case nil:
		return M{"t": "null"}
	case bool:
		return M{"t": "bool", "b": x}
	case json.Number:
		r, ok := new(big.Rat).SetString(x.String())
		if !ok {
			return odd(x)
		}
		two := new(big.Rat).Mul(r, big.NewRat(4, 1))
		if two.IsInt() && two.Num().IsInt64() {
			h := two.Num().Int64()
			if h > -(1<<28) && h < (1<<28) {
				return M{"t": "num", "h": h}
			}
		}
		if r.IsInt() {
			n := r.Num()
			for _, e := range landmarks {
				for _, sg := range []int64{1, -1} {
					base := new(big.Int).Lsh(big.NewInt(1), e)
					if sg < 0 {
						base.Neg(base)
					}
					d := new(big.Int).Sub(n, base)
					if d.IsInt64() && d.Int64() >= -16 && d.Int64() <= 16 {
						return M{"t": "big", "sg": sg, "e": int64(e), "o": d.Int64()}
					}
				}
			}
		}
		return odd(x)
	case string:
		for f, t := range FormatText {
			if x == t {
				return M{"t": "fmt", "f": f}
			}
		}
		for fv, t := range FormatVariantText {
			if x == t {
				i := strings.LastIndex(fv, ":")
				return M{"t": "fmt", "f": fv[:i], "v": fv[i+1:]}
			}
		}
		cs := []any{}
		for _, r := range x {
			id, ok := charOf[r]
			if !ok {
				return odd(x)
			}
			cs = append(cs, id)
		}
		return M{"t": "str", "s": cs}
	case []any:
		a := make([]any, len(x))
		for i, e := range x {
			a[i] = fromVal(e)
		}
		return M{"t": "arr", "a": a}
	case map[string]any:
		keys := make([]string, 0, len(x))
		for k := range x {
			keys = append(keys, k)
		}
		sort.Strings(keys)
		o := make([]any, len(keys))
		for i, k := range keys {
			o[i] = M{"k": k, "v": fromVal(x[k])}
		}
		return M{"t": "obj", "o": o}
	}
	return odd(v)
}
