----------------------------- MODULE Trace_C20 -----------------------------
(***************************************************************************)
(* Trace specification for C20: one event per real multi-file run,             *)
(*   [design |-> terminal state of spec/Outputs.tla for this layout and          *)
(*               argument list (intended design), asis |-> the same with the       *)
(*               open deviations, obs |-> [failed, builds, outs |-> << [file,        *)
(*               pkg, types] >>] read from the emitted files with go/ast].            *)
(* The run must fail iff the model fails (one file, two packages), otherwise           *)
(* emit exactly the model's outputs: every schema's types once, in the mapped file      *)
(* under the mapped package, and all packages must compile together.                     *)
(***************************************************************************)
EXTENDS Integers, Sequences, FiniteSets, TLC, Json
CONSTANTS ObsFile
VARIABLES l, tally
vars == <<l, tally>>
Obs == ndJsonDeserialize(ObsFile)

SetOf(s) == {s[i] : i \in DOMAIN s}
OutsMatch(exp, obs) ==
  /\ Len(obs.outs) = Cardinality(DOMAIN exp.outs)
  /\ \A o \in DOMAIN exp.outs : \E i \in DOMAIN obs.outs :
        /\ obs.outs[i].file = o /\ obs.outs[i].pkg = exp.outs[o].pkg
        /\ SetOf(obs.outs[i].types) = SetOf(exp.outs[o].types)
\* (when the as-is model loses a schema's output, packages that import it cannot compile: builds is then free)
\* (packages that import each other cannot be built by Go whatever is generated: pkgcycle runs are not judged on
\* building; nobuild is the as-is prediction of a compile failure under an open deviation)
Matches(exp, obs) == obs.failed = exp.failed
                     /\ (~exp.failed => (OutsMatch(exp, obs) /\ (exp.lost \/ exp.pkgcycle \/ obs.builds = ~exp.nobuild)))
Classify(e) == IF Matches(e.design, e.obs) THEN "ok"
               ELSE IF Matches(e.asis, e.obs) THEN "known" ELSE "violation"
Report(n, e, c) ==
  PrintT("REPORT " \o ToJson([l |-> n, i |-> 1, class |-> c, kind |-> "placement", devs |-> <<>>,
                             ref |-> ToJson(e.design), obs |-> ToJson(e.obs), impl |-> ToJson(e.asis)]))
Step(n, e, t) ==
  LET c == Classify(e) IN
  IF c = "ok" \/ Report(n, e, c)
  THEN [ok |-> t.ok + (IF c = "ok" THEN 1 ELSE 0), un |-> 0, known |-> t.known + (IF c = "known" THEN 1 ELSE 0),
        viol |-> t.viol + (IF c = "violation" THEN 1 ELSE 0), drift |-> 0,
        acc |-> t.acc + (IF e.obs.failed THEN 0 ELSE 1), rej |-> t.rej + (IF Len(e.design.args) > 1 THEN 1 ELSE 0)]
  ELSE t
Init == l = 0 /\ tally = [ok |-> 0, un |-> 0, known |-> 0, viol |-> 0, drift |-> 0, acc |-> 0, rej |-> 0]
Next == l < Len(Obs) /\ l' = l + 1 /\ tally' = Step(l + 1, Obs[l + 1], tally)
Spec == Init /\ [][Next]_vars
Done == l = Len(Obs) => PrintT("TALLY " \o ToJson(tally))
Accepted == TLCGet("stats").diameter = Len(Obs) + 1
=============================================================================
