------------------------------ MODULE MC_C13 ------------------------------
(***************************************************************************)
(* C13 -- equivalent spellings of a schema generate identical code.           *)
(* For each base shape TLC enumerates EVERY subset of the re-spelling           *)
(* switches, builds the document as it is written under that spelling, parses   *)
(* it with the model of the parser (spec/Parse.tla) and checks that the normal   *)
(* form is the same as for the canonical spelling.  Every spelled document is     *)
(* emitted; the harness writes it as JSON, as block YAML and as flow YAML and      *)
(* the real generator must emit byte-identical code for all of them.               *)
(*   lid      "id" instead of "$id"                                                *)
(*   ldefs    "definitions" instead of "$defs" (schema level and type level)        *)
(*   lref     "#/definitions/X" instead of "#/$defs/X"                               *)
(*   uref     upper-case prefix "#/$DEFS/X" / "#/DEFINITIONS/X"                      *)
(*   ldeps    "dependencies" instead of "dependentSchemas"                           *)
(*   tlist    a single type as a one-element list                                    *)
(*   tsub     `true` instead of {} for items / additionalProperties / a property      *)
(*   both     the legacy and the current key both present with equal content           *)
(***************************************************************************)
EXTENDS Parse, Json

CONSTANTS UnitsFile

VARIABLES shape, F
vars == <<shape, F>>

Switches == {"lid", "ldefs", "lref", "uref", "ldeps", "tlist", "tsub", "both"}

T(t, f) == IF "tlist" \in f THEN [l |-> <<t>>] ELSE [s |-> t]
AnyS(f)  == IF "tsub" \in f THEN [b |-> TRUE] ELSE [empty |-> TRUE]
Ref(n, f) == [prefix |-> IF "lref" \in f THEN (IF "uref" \in f THEN "/DEFINITIONS/" ELSE "/definitions/")
                         ELSE (IF "uref" \in f THEN "/$DEFS/" ELSE "/$defs/"), name |-> n]
\* a key with a legacy and a current spelling; "both" writes the two with equal content
Key2(cur, leg, useLeg, f, v) ==
  IF "both" \in f THEN (cur :> v) @@ (leg :> v) ELSE IF useLeg THEN leg :> v ELSE cur :> v

Shape(n, f) ==
  CASE n = 1 ->
        Key2("$id", "id", "lid" \in f, f, "https://example.com/s1")
        @@ ("type" :> T("object", f))
        @@ ("properties" :> [a |-> [type |-> T("string", f)],
                             b |-> ("$ref" :> Ref("D", f)),
                             c |-> [type |-> T("array", f), items |-> AnyS(f)],
                             d |-> AnyS(f)])
        @@ ("additionalProperties" :> AnyS(f))
        @@ Key2("$defs", "definitions", "ldefs" \in f, f, [D |-> [type |-> T("integer", f)], E |-> [type |-> T("object", f),
                                                            properties |-> [x |-> ("$ref" :> Ref("D", f))]]])
    [] n = 2 ->
        \* definitions at TYPE level and dependent schemas
        ("type" :> T("object", f))
        @@ ("properties" :> [p |-> ( ("type" :> T("object", f))
                                     @@ ("properties" :> [q |-> [type |-> T("number", f)]])
                                     @@ Key2("$defs", "definitions", "ldefs" \in f, f, [Inner |-> [type |-> T("boolean", f)]])
                                     @@ Key2("dependentSchemas", "dependencies", "ldeps" \in f, f, [q |-> [type |-> T("object", f)], z |-> AnyS(f)]) ),
                             r |-> ("$ref" :> Ref("Top", f))])
        @@ Key2("$defs", "definitions", "ldefs" \in f, f, [Top |-> [type |-> T("string", f)]])
    [] n = 3 ->
        \* property names that YAML reads as numbers / booleans / null when unquoted
        ("type" :> T("object", f))
        @@ ("properties" :> [k1 |-> [type |-> T("integer", f)], ktrue |-> [type |-> T("string", f)],
                             knull |-> [type |-> T("boolean", f)], k15 |-> [type |-> T("number", f)],
                             arr |-> [type |-> T("array", f), items |-> [type |-> T("object", f), additionalProperties |-> AnyS(f)]]])
        @@ Key2("$defs", "definitions", "ldefs" \in f, f, [k2 |-> [type |-> T("integer", f)]])

    [] n = 4 ->
        \* a recursive document ("$ref": "#" under its id) with non-ASCII text in a description, a pattern and enum
        \* values (t_... stand for texts the harness holds: SANY strings are ASCII)
        Key2("$id", "id", "lid" \in f, f, "https://example.com/s4")
        @@ ("type" :> T("object", f))
        @@ ("properties" :> [parent |-> ("$ref" :> [prefix |-> "", name |-> ""]),
                             kids   |-> [type |-> T("array", f), items |-> ("$ref" :> [prefix |-> "", name |-> ""])],
                             value  |-> [type |-> T("integer", f)],
                             label  |-> [type |-> T("string", f), description |-> "t_desc", pattern |-> "t_pat"],
                             kind   |-> [enum |-> <<"t_cafe", "t_naive", "t_plain">>]])
        @@ ("required" :> <<"value">>)

ShapeMore(n, f) ==
  \* a document whose ROOT is a reference to one of its own definitions (the root is decoded by Schema.UnmarshalJSON, not
  \* by Type.UnmarshalJSON like every node below it)
  CASE n = 5 ->
        Key2("$id", "id", "lid" \in f, f, "https://example.com/s5")
        @@ ("type" :> T("object", f)) @@ ("$ref" :> Ref("D", f))
        @@ Key2("$defs", "definitions", "ldefs" \in f, f, [D |-> [type |-> T("object", f), properties |-> [x |-> [type |-> T("integer", f)],
                                                                                                        y |-> ("$ref" :> Ref("E", f))]],
                                                            E |-> [type |-> T("string", f)]])
ShapeAll(n, f) == IF n <= 4 THEN Shape(n, f) ELSE ShapeMore(n, f)

Applicable(n) == CASE n = 1 -> Switches \ {"ldeps"} [] n = 2 -> Switches \ {"lid"} [] n = 3 -> {"ldefs", "tlist", "tsub", "both"}
                   [] n = 4 -> {"lid", "tlist", "both"} [] n = 5 -> Switches \ {"ldeps", "tsub"}

\* design-level: the parser's normal form is spelling-independent
DesignOK == ParseSchema(ShapeAll(shape, F)) = ParseSchema(ShapeAll(shape, {}))

Init == shape \in 1..5 /\ F = {"?"}
Pick == F = {"?"} /\ F' \in SUBSET Applicable(shape) /\ UNCHANGED shape
Next == Pick
Spec == Init /\ [][Next]_vars
Set == F # {"?"}
Inv == Set => DesignOK
Emit == Set => (UnitsFile = "" \/ PrintT("VARIANT " \o ToJson([shape |-> shape, sw |-> F, doc |-> ShapeAll(shape, F)])))
=============================================================================
