------------------------------- MODULE Names -------------------------------
(***************************************************************************)
(* IMPLEMENTATION-SHAPED model of identifier construction                    *)
(*   internal/x/text/cases.go  splitIdentifierByCaseAndSeparators,            *)
(*                             Caser.Identifierize, Caser.Capitalize          *)
(*   pkg/generator/schema_generator.go addStructField (sibling _N suffixes)   *)
(* A name is a sequence of CHARACTER CLASS ids.  The classes partition all    *)
(* Unicode scalar values by what the code and the Go grammar consult          *)
(* (DESIGN.md 4.4): the splitter state of the rune, its general category,      *)
(* and the category of unicode.ToUpper(rune).  Output identifiers are          *)
(* sequences of [c |-> class, up |-> BOOLEAN] (the rune itself or its          *)
(* ToUpper image) -- or the literal prefix item "A".                           *)
(*                                                                          *)
(* Deviations (members of D):                                                *)
(*   "IllegalNumeralInIdent"  runes with IsNumber but not Nd (No / Nl: 2 1/2   *)
(*        roman numerals) are copied into the identifier although Go does not    *)
(*        allow them (intended design: they separate words like punctuation)     *)
(*   "UnexportedNoUpperLower" a leading lower-case letter whose ToUpper is       *)
(*        itself (sharp s ...) leaves the identifier unexported: the "A" prefix    *)
(*        is only added for caseless first letters                                *)
(***************************************************************************)
EXTENDS Integers, Sequences, FiniteSets, TLC

\* class id -> [st: splitter state, cat: category of the rune, ucat: category of ToUpper(rune)]
\* categories: "Lu" upper-case letter, "Ll" lower-case letter, "Lo" any other letter (titlecase, modifier,
\* caseless), "Nd" decimal digit, "Nx" numeral that is not a digit (illegal in identifiers), "P" anything else
Class ==
  [ lo         |-> [st |-> "lower",  cat |-> "Ll", ucat |-> "Lu"],
    lo_noupper |-> [st |-> "lower",  cat |-> "Ll", ucat |-> "Ll"],
    lo_title   |-> [st |-> "lower",  cat |-> "Ll", ucat |-> "Lo"],
    up         |-> [st |-> "upper",  cat |-> "Lu", ucat |-> "Lu"],
    title      |-> [st |-> "nocase", cat |-> "Lo", ucat |-> "Lu"],
    nocase     |-> [st |-> "nocase", cat |-> "Lo", ucat |-> "Lo"],
    nd         |-> [st |-> "number", cat |-> "Nd", ucat |-> "Nd"],
    num_other  |-> [st |-> "number", cat |-> "Nx", ucat |-> "Nx"],
    num_cased  |-> [st |-> "number", cat |-> "Nx", ucat |-> "Nx"],
    us         |-> [st |-> "delim",  cat |-> "P",  ucat |-> "P"],
    delim      |-> [st |-> "delim",  cat |-> "P",  ucat |-> "P"],
    \* white space (space, tab, U+00A0, U+2003, U+2028): a delimiter like any other for the identifier; kept apart
    \* because the struct TAG must carry it verbatim (runs of blanks, non-ASCII blanks)
    ws         |-> [st |-> "delim",  cat |-> "P",  ucat |-> "P"],
    delim_cased |-> [st |-> "delim", cat |-> "P",  ucat |-> "P"],
    delim_upper |-> [st |-> "delim", cat |-> "P",  ucat |-> "Lu"] ]
ClassIds == DOMAIN Class

\* splitter state of a rune; in the intended design a non-digit numeral is a delimiter
St(c, D) == IF Class[c].cat = "Nx" /\ "IllegalNumeralInIdent" \notin D THEN "delim" ELSE Class[c].st

\* splitIdentifierByCaseAndSeparators: the loop, one rune at a time.
\*   acc = [parts, j (start of current part), cur (current state)]
RECURSIVE SplitFrom(_, _, _, _)
SplitFrom(name, i, acc, D) ==
  IF i > Len(name) THEN
       IF acc.cur # "delim" /\ acc.cur # "nothing" /\ Len(name) - acc.j + 1 > 0
       THEN Append(acc.parts, SubSeq(name, acc.j, Len(name))) ELSE acc.parts
  ELSE LET nxt == St(name[i], D) IN
       IF nxt = acc.cur THEN SplitFrom(name, i + 1, acc, D)
       ELSE IF acc.cur = "delim" THEN SplitFrom(name, i + 1, [acc EXCEPT !.j = i, !.cur = nxt], D)
       ELSE IF acc.cur = "upper" /\ nxt = "lower" THEN SplitFrom(name, i + 1, [acc EXCEPT !.cur = nxt], D)
       ELSE SplitFrom(name, i + 1,
                      [parts |-> IF i > acc.j THEN Append(acc.parts, SubSeq(name, acc.j, i - 1)) ELSE acc.parts,
                       j |-> i, cur |-> nxt], D)
Split(name, D) == SplitFrom(name, 1, [parts |-> <<>>, j |-> 1, cur |-> "nothing"], D)

\* Capitalize (without a capitalization list): ToUpper of the first rune
Item(c, up) == [c |-> c, up |-> up]
CapPart(p) == <<Item(p[1], TRUE)>> \o [k \in 1..(Len(p) - 1) |-> Item(p[k + 1], FALSE)]
RECURSIVE Concat(_)
Concat(ps) == IF ps = <<>> THEN <<>> ELSE CapPart(Head(ps)) \o Concat(Tail(ps))

CatOf(it) == IF it.c = "A" THEN "Lu" ELSE IF it.up THEN Class[it.c].ucat ELSE Class[it.c].cat
IsLetterCat(k) == k \in {"Lu", "Ll", "Lo"}

\* Identifierize.  special: "" -> Blank, "*" -> Wildcard handled by the caller (literal names)
Identifierize(name, D) ==
  LET body == Concat(Split(name, D)) IN
  IF body = <<>> THEN <<Item("Undefined", FALSE)>>
  ELSE LET k == CatOf(body[1])
           needA == \/ ~IsLetterCat(k)
                    \/ k = "Lo"                                            \* isNotCaseSensitiveLetter
                    \/ (k = "Ll" /\ "UnexportedNoUpperLower" \notin D)     \* intended: anything not upper
       IN IF needA THEN <<Item("A", FALSE)>> \o body ELSE body

Cats(ident) == [k \in DOMAIN ident |-> IF ident[k].c = "Undefined" THEN "WORD" ELSE CatOf(ident[k])]

(* ---- the property on an identifier given by its category sequence ---- *)
ValidExported(cats) ==
  /\ cats # <<>>
  /\ cats[1] \in {"Lu", "WORD"}
  /\ \A k \in 2..Len(cats) : cats[k] \in {"Lu", "Ll", "Lo", "Nd", "US"}
=============================================================================
