------------------------------ MODULE MC_C01 ------------------------------
(***************************************************************************)
(* C01 -- every emitted file is valid, self-contained Go that compiles.       *)
(* This module adds the units only C01 needs; the C01 check also compiles       *)
(* (and gofmt-checks) the units of every other family under several option       *)
(* sets.                                                                          *)
(*  text   descriptions / titles from a hostile-text table (newline, CR,           *)
(*         comment terminator, backtick, quotes, a 300-character word, a short       *)
(*         text with an embedded newline, leading slashes, non-ASCII) at root,        *)
(*         property, definition and enum positions                                     *)
(*  ext    goJSONSchema extension objects (type + imports, identifier, nillable)        *)
(*         on a property, on array items, on an anyOf branch member, on a definition     *)
(*  pat    patterns containing a double quote, a backslash class, a backtick              *)
(*  udef   definitions of 21 kinds that nothing (or only an interface{} referrer)          *)
(*         refers to, or that a property / two properties / array items refer to           *)
(***************************************************************************)
EXTENDS JV, Json, SequencesExt

CONSTANTS UnitsFile, Devs

VARIABLES fam, par, opt, picked
vars == <<fam, par, opt, picked>>

Int_ == [type |-> <<"integer">>]
Str_ == [type |-> <<"string">>]
Obj(ps, r) == ("type" :> <<"object">>) @@ ("properties" :> ps) @@ (IF r = <<>> THEN <<>> ELSE "required" :> r)

Texts == {"d_nl", "d_cr", "d_cmt", "d_bt", "d_qt", "d_long", "d_shortnl", "d_slashes", "d_uni", "d_pct", "d_tab"}
TextPos == {"root", "property", "definition", "enumprop", "title"}
TextUnit(t, p) ==
  LET withD(s) == s @@ ("description" :> t)
      base == Obj(<<[k |-> "a", s |-> IF p = "property" THEN withD(Str_) ELSE Str_],
                    [k |-> "e", s |-> IF p = "enumprop" THEN withD([enum |-> <<JStr(<<"a">>), JStr(<<"b">>)>>]) ELSE [enum |-> <<JStr(<<"a">>)>>]],
                    [k |-> "d", s |-> [ref |-> [k |-> "defs", n |-> "D"]]]>>, <<"a">>)
      root == IF p = "root" THEN withD(base) ELSE IF p = "title" THEN base @@ ("title" :> t) ELSE base
      def == Obj(<<[k |-> "v", s |-> Int_]>>, <<"v">>)
  IN [prop |-> "C01", fam |-> "text", schema |-> root,
      defs |-> <<[k |-> "D", s |-> IF p = "definition" THEN withD(def) ELSE def]>>,
      docs |-> <<JObj(<<KV("a", JStr(<<"a">>))>>)>>, nobuild |-> <<>>,
      opts |-> [structNameFromTitle |-> p = "title"]]

\* "identdup": an explicit identifier that equals the Go name derived for ANOTHER property (a -> A) of the same object
\* "identsame": TWO properties of one object ask for the same explicit identifier
Exts == {"dur", "local", "ident", "nillable", "identdup", "identsame"}
ExtPos == {"property", "items", "anyofmember", "definition"}
ExtRec(x) == CASE x = "dur" -> [type |-> "time.Duration", imports |-> <<"time">>]
               [] x = "local" -> [type |-> "int64"]
               [] x = "ident" -> [identifier |-> "CustomIdent"]
               [] x = "nillable" -> [type |-> "[]byte", nillable |-> TRUE]
               [] x = "identdup" -> [identifier |-> "A"]
               [] x = "identsame" -> [identifier |-> "Same"]
ExtUnit(x, p) ==
  LET es == ("type" :> <<"integer">>) @@ ("goJSONSchema" :> ExtRec(x))
      xs == CASE p = "property" -> es
              [] p = "items" -> [type |-> <<"array">>, items |-> es]
              [] p = "anyofmember" -> [anyOf |-> <<Obj(<<[k |-> "m", s |-> es]>>, <<"m">>), Obj(<<[k |-> "n", s |-> Str_]>>, <<"n">>)>>]
              [] p = "definition" -> [ref |-> [k |-> "defs", n |-> "X"]]
      ys == IF x = "identsame" THEN Str_ @@ ("goJSONSchema" :> [identifier |-> "Same"]) ELSE Str_
  IN [prop |-> "C01", fam |-> "ext", schema |-> Obj(<<[k |-> "a", s |-> Str_], [k |-> "x", s |-> xs], [k |-> "y", s |-> ys]>>, <<"y">>),
      defs |-> IF p = "definition" THEN <<[k |-> "X", s |-> Obj(<<[k |-> "m", s |-> es]>>, <<"m">>)]>> ELSE <<>>,
      docs |-> <<JObj(<<KV("y", JStr(<<"a">>))>>)>>, nobuild |-> <<>>, opts |-> [structNameFromTitle |-> FALSE]]

Pats == {"p_qt", "p_cls", "p_bt"}
PatUnit(p, pos) ==
  [prop |-> "C01", fam |-> "pat",
   schema |-> Obj(<<[k |-> "x", s |-> IF pos = "def" THEN [ref |-> [k |-> "defs", n |-> "P"]] ELSE [type |-> <<"string">>, pattern |-> p]]>>, <<>>),
   defs |-> IF pos = "def" THEN <<[k |-> "P", s |-> [type |-> <<"string">>, pattern |-> p]]>> ELSE <<>>,
   docs |-> <<JObj(<<>>)>>,
   nobuild |-> IF p = "p_bt" THEN <<"BacktickInPatternNoCompile">> ELSE <<>>, opts |-> [structNameFromTitle |-> FALSE]]

\* udef: a definition of every kind that NOTHING refers to, or that only a referrer the generator maps to
\* interface{} refers to (additionalProperties next to properties; a chain definition) -- whatever generating the
\* definition registers (imports, helper declarations) must still be used by what is emitted
UKinds == {"date", "time", "datetime", "ipv4", "ipv6", "ndate", "ndatetime", "nipv4", "enums", "enumu", "enummix", "arrdate", "nint",
           "obj", "objdate", "allof", "anyof", "map", "pattern", "multnum", "objdefault"}
UUses == {"none", "addlref", "chain", "prop", "items"}
FmtS(f, n) == [type |-> IF n THEN <<"string", "null">> ELSE <<"string">>, format |-> f]
UDef(k) ==
  CASE k = "date" -> FmtS("date", FALSE) [] k = "time" -> FmtS("time", FALSE) [] k = "datetime" -> FmtS("date-time", FALSE)
    [] k = "ipv4" -> FmtS("ipv4", FALSE) [] k = "ipv6" -> FmtS("ipv6", FALSE)
    [] k = "ndate" -> FmtS("date", TRUE) [] k = "ndatetime" -> FmtS("date-time", TRUE) [] k = "nipv4" -> FmtS("ipv4", TRUE)
    [] k = "enums" -> [type |-> <<"string">>, enum |-> <<JStr(<<"a">>), JStr(<<"b">>)>>]
    [] k = "enumu" -> [enum |-> <<JStr(<<"a">>), JNum(4)>>]
    [] k = "enummix" -> [enum |-> <<JStr(<<"a">>), JNull, JBool(TRUE)>>]
    [] k = "arrdate" -> [type |-> <<"array">>, items |-> FmtS("date", FALSE)]
    [] k = "nint" -> ("type" :> <<"integer", "null">>) @@ ("minimum" :> JNum(8))
    [] k = "obj" -> Obj(<<[k |-> "v", s |-> Int_]>>, <<"v">>)
    [] k = "objdate" -> Obj(<<[k |-> "v", s |-> FmtS("date-time", FALSE)]>>, <<>>)
    [] k = "allof" -> [type |-> <<"object">>, allOf |-> <<Obj(<<[k |-> "p", s |-> Int_]>>, <<"p">>), Obj(<<[k |-> "q", s |-> Str_]>>, <<>>)>>]
    [] k = "anyof" -> [type |-> <<"object">>, anyOf |-> <<Obj(<<[k |-> "p", s |-> Int_]>>, <<"p">>), Obj(<<[k |-> "q", s |-> Str_]>>, <<"q">>)>>]
    [] k = "map" -> [type |-> <<"object">>, additionalProperties |-> [k |-> "s", s |-> FmtS("ipv4", FALSE)]]
    [] k = "pattern" -> [type |-> <<"string">>, pattern |-> "p_a"]
    [] k = "multnum" -> ("type" :> <<"number">>) @@ ("multipleOf" :> 2)
    [] k = "objdefault" -> Obj(<<[k |-> "v", s |-> ("type" :> <<"array">>) @@ ("items" :> Str_) @@ ("default" :> JArr(<<JStr(<<"a">>)>>))]>>, <<>>)
RefU == [ref |-> [k |-> "defs", n |-> "U"]]
UDefUnit(k, use) ==
  LET root == CASE use = "none"    -> Obj(<<[k |-> "y", s |-> Str_]>>, <<>>)
                [] use = "addlref" -> Obj(<<[k |-> "y", s |-> Str_]>>, <<>>) @@ ("additionalProperties" :> [k |-> "s", s |-> RefU])
                [] use = "chain"   -> Obj(<<[k |-> "x", s |-> [ref |-> [k |-> "defs", n |-> "V"]]], [k |-> "y", s |-> Str_]>>, <<>>)
                [] use = "prop"    -> Obj(<<[k |-> "x", s |-> RefU], [k |-> "x2", s |-> RefU], [k |-> "y", s |-> Str_]>>, <<"x">>)
                [] use = "items"   -> Obj(<<[k |-> "x", s |-> [type |-> <<"array">>, items |-> RefU]], [k |-> "y", s |-> Str_]>>, <<>>)
  IN [prop |-> "C01", fam |-> "udef", schema |-> root,
      \* definitions are generated in name order: A (a constrained string: a declared type with an unmarshaler that
      \* registers encoding/json, fmt and regexp) comes before U, W (the same) after it
      defs |-> <<[k |-> "A", s |-> [type |-> <<"string">>, pattern |-> "p_a"]], [k |-> "U", s |-> UDef(k)]>>
               \o (IF use = "chain" THEN <<[k |-> "V", s |-> RefU]>> ELSE <<>>)
               \o <<[k |-> "W", s |-> ("type" :> <<"string">>) @@ ("minLength" :> 1)]>>,
      docs |-> <<JObj(<<>>)>>,
      \* a named float type with multipleOf does not compile (finding F-C01-named-float-multipleof)
      nobuild |-> IF k = "multnum" THEN <<"NamedFloatMultipleOfNoCompile">> ELSE <<>>,
      opts |-> [structNameFromTitle |-> FALSE]]

\* smult: multipleOf on an integer whose bounds select a sized type under --min-sized-ints (unsigned 64 / 8 bit, signed
\* 8 bit), at a required, optional and nullable position: the emitted check must be the integer form for every type
SMultUnit(b, pos) ==
  LET bounds == CASE b = "u"  -> ("minimum" :> JNum(0))
                  [] b = "u8" -> ("minimum" :> JNum(0)) @@ ("maximum" :> JNum(800))
                  [] b = "s8" -> ("minimum" :> JNum(-20)) @@ ("maximum" :> JNum(20))
      leaf == ("type" :> (IF pos = "null" THEN <<"integer", "null">> ELSE <<"integer">>)) @@ bounds @@ ("multipleOf" :> 32)
  IN [prop |-> "C01", fam |-> "smult", schema |-> Obj(<<[k |-> "x", s |-> leaf], [k |-> "y", s |-> Str_]>>, IF pos = "req" THEN <<"x">> ELSE <<>>),
      defs |-> <<>>, docs |-> <<JObj(<<>>)>>, nobuild |-> <<>>, opts |-> [structNameFromTitle |-> FALSE]]

Pars(f) == CASE f = "text" -> Texts \X TextPos [] f = "ext" -> Exts \X ExtPos [] f = "pat" -> Pats \X {"prop", "def"}
             [] f = "udef" -> UKinds \X UUses [] f = "smult" -> {"u", "u8", "s8"} \X {"req", "opt", "null"}
OptSets == {"none", "extra", "models", "sized"}
WithOpt(unit, o) ==
  [unit EXCEPT !.opts = @ @@ [extraImports |-> o = "extra", onlyModels |-> o = "models", minSizedInts |-> o = "sized"]]
u == WithOpt(CASE fam = "text" -> TextUnit(par[1], par[2]) [] fam = "ext" -> ExtUnit(par[1], par[2]) [] fam = "pat" -> PatUnit(par[1], par[2])
               [] fam = "udef" -> UDefUnit(par[1], par[2]) [] fam = "smult" -> SMultUnit(par[1], par[2]), opt)
Set == picked
DesignOK == TRUE
AsIsOK == TRUE
Init == fam \in {"text", "ext", "pat", "udef", "smult"} /\ opt \in OptSets /\ par = <<>> /\ picked = FALSE
Pick == ~picked /\ picked' = TRUE /\ par' \in Pars(fam) /\ UNCHANGED <<fam, opt>>
Next == Pick
Spec == Init /\ [][Next]_vars
Emit == Set => (UnitsFile = "" \/ LET unit == u IN PrintT("UNIT " \o ToJson(unit)))
=============================================================================
