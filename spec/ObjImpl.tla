------------------------------ MODULE ObjImpl ------------------------------
(***************************************************************************)
(* IMPLEMENTATION-SHAPED model of generated struct types                     *)
(*   pkg/generator/schema_generator.go  generateStructType, addStructField,  *)
(*                                       generateDeclaredType (validators),  *)
(*                                       generateAllOfType / generateAnyOfType*)
(*   pkg/schemas/model.go               MergeTypes (mergo, append slices)    *)
(*   pkg/generator/validator.go         requiredValidator, anyOfValidator    *)
(*   pkg/generator/json_formatter.go    generate (pipeline order)            *)
(*                                                                          *)
(* A struct is generated per object schema; RequiredJSONFields holds the     *)
(* required names that are DECLARED properties without a default             *)
(* (addStructField is only called for declared properties: deviation         *)
(* "RequiredUndeclaredIgnored" -- in the intended design every required name *)
(* is checked on the raw map).  UnmarshalJSON: raw map decode, required      *)
(* checks on the raw map, typed decode (recursively running the nested       *)
(* types' own unmarshalers), then value validators.                          *)
(***************************************************************************)
EXTENDS Bounds, StrImpl

\* names checked by requiredValidator for object schema s
ReqChecked(s, D) ==
  {k \in Required(s) : /\ ("RequiredUndeclaredIgnored" \in D => k \in PropNames(s))
                       /\ ~(k \in PropNames(s) /\ Has(PropSchema(s, k), "default"))}

\* typed decode + nested unmarshalers for a value of the Go type generated for schema s
RECURSIVE ImplValue(_, _, _, _)
RECURSIVE ImplStruct(_, _, _, _)

\* value validators attached to a struct field of primitive type (numericValidator / stringValidator)
LeafOK(ps, v, D) ==
  IF v.t = "null" \/ Has(ps, "ref") \/ Has(ps, "enum") THEN TRUE
  ELSE CASE Main(ps) \in {"integer", "number"} -> v.t \notin {"num", "big"} \/ ImplNumAccepts(ps, v, D)
         [] Main(ps) = "string" /\ ~Has(ps, "format") -> v.t # "str" \/ ImplStrAccepts(ps, v, D)
         [] OTHER -> TRUE

ImplStruct(env, s, d, D) ==
  /\ d.t = "obj"                                              \* json: cannot unmarshal X into struct / raw map
  /\ \A k \in ReqChecked(s, D) : ObjHas(d, k)                  \* requiredValidator (before typed decode)
  /\ \A k \in PropNames(s) \cap ObjKeys(d) : ImplValue(env, PropSchema(s, k), ObjVal(d, k), D)
  /\ \A k \in PropNames(s) \cap ObjKeys(d) : LeafOK(PropSchema(s, k), ObjVal(d, k), D)   \* after typed decode

ImplValue(env, s, v, D) ==
  IF v.t = "null" THEN TRUE                                    \* encoding/json: null is a no-op
  ELSE IF Has(s, "ref") THEN ImplValue(env, EnvGet(env, s.ref.n), v, D)
  ELSE LET T == Main(s) IN
    CASE T = "object"  -> ImplStruct(env, s, v, D)
      [] T = "array"   -> v.t = "arr" /\ \A i \in DOMAIN v.a :
                             ImplValue(env, IF Has(s, "items") THEN s.items ELSE [type |-> <<>>], v.a[i], D)
      [] T = "integer" -> v.t \in {"num", "big"} /\ IsIntegral(v)
      [] T = "number"  -> v.t \in {"num", "big"}
      [] T = "string"  -> IF Has(s, "format") /\ s.format \in Formats
                          THEN v.t = "fmt" /\ v.f = s.format      \* time.Time / netip.Addr / Serializable*: parse
                          ELSE v.t \in {"str", "fmt"}
      [] T = "boolean" -> v.t = "bool"
      [] OTHER -> TRUE

\* MergeTypes over resolved branches (mergo.Merge with WithAppendSlice): property maps are merged
\* key-wise and the *Type of a key present in several branches is merged keyword by keyword, an
\* already set keyword winning (fill-zero) -- JV.MergedSchema; `required` lists are appended.
Resolve(env, b) == ResolveB(env, b)
Merged(env, branches) == MergedSchema(env, branches)

\* allOf: one struct for the merged type.  In the intended design every branch's constraints hold
\* (conjunction); merging keyword-wise with "first wins" is deviation "AllOfFirstWins".
ImplAllOf(env, branches, v, D) ==
  \/ v.t = "null"
  \/ IF "AllOfFirstWins" \in D THEN ImplStruct(env, Merged(env, branches), v, D)
     ELSE /\ ImplStruct(env, Merged(env, branches), v, D)
          /\ \A i \in DOMAIN branches :
               LET b == Resolve(env, branches[i]) IN
               \A k \in PropNames(b) \cap ObjKeys(v) :
                  ImplValue(env, PropSchema(b, k), ObjVal(v, k), D) /\ LeafOK(PropSchema(b, k), ObjVal(v, k), D)

\* anyOf: anyOfValidator tries each branch type's UnmarshalJSON on the same bytes, fails iff all fail;
\* then typed decode into the merged struct (field types only)
\* (the merged struct's own unmarshaler holds only the anyOf validator: no field validators)
ImplAnyOf(env, branches, v, D) ==
  \/ v.t = "null"
  \/ /\ \E i \in DOMAIN branches : ImplStruct(env, Resolve(env, branches[i]), v, D)
     /\ ("AnyOfMergedDecode" \in D =>
          LET m == Merged(env, branches) IN
          v.t = "obj" /\ \A k \in PropNames(m) \cap ObjKeys(v) : ImplValue(env, PropSchema(m, k), ObjVal(v, k), D))
=============================================================================
