------------------------------ MODULE MC_C10 ------------------------------
(***************************************************************************)
(* C10 (first part) -- $ref is transparent and resolves relative to its         *)
(* document.  A CLASS is a leaf schema at a position (ctx) of a root object;      *)
(* its FORMS are the ways of writing the same schema with the leaf factored        *)
(* out: into #/$defs, #/definitions, a chain of definitions, a sibling file, a      *)
(* definition of a sibling file, a file in a sub- or parent directory, a YAML        *)
(* file, an extension-less reference under --resolve-extension (with a decoy of      *)
(* another extension), "./" and "sub/../" spellings, a file that itself              *)
(* references a file relative to ITS directory (with a decoy where a root- or        *)
(* cwd-relative resolution would look), and layouts in which two documents in        *)
(* different directories write the same relative reference, or declare a             *)
(* same-named definition, with different targets.                                    *)
(*                                                                          *)
(* TLC checks for every (class, form), over the whole document set of the class:     *)
(*   FactorOK   eliminating the references (Deref, spec-level inlining) gives         *)
(*              back exactly the inline form's schema, and the reference               *)
(*              semantics Valid is the same for both -- the enumerator is right;       *)
(*   ResolveOK  the loader state machine (spec/Loader.tla) folded over the loads       *)
(*              of the run returns for every reference the file the file system        *)
(*              says, relative to the referring document (under the deviation          *)
(*              switches it does not: that is how the switches are validated);         *)
(* and emits one unit per form.  The harness generates every form with the real         *)
(* generator, executes all documents, and spec/Trace_C10.tla compares every form        *)
(* with the inline form of its class (verdict and re-marshalled value) and checks       *)
(* that two referrers of one definition share one Go type.                              *)
(***************************************************************************)
EXTENDS JV, Loader, Json, SequencesExt

CONSTANTS UnitsFile, Devs, Tier

VARIABLES leaf, ctx, form       \* form = "?" while unset
vars == <<leaf, ctx, form>>

Int_ == [type |-> <<"integer">>]
Str_ == [type |-> <<"string">>]
SA == JStr(<<"a">>)  SAB == JStr(<<"a", "b">>)  SBA == JStr(<<"b", "a">>)  SB == JStr(<<"b">>)
ObjK(v) == JObj(<<KV("k", v)>>)

\* leaf kind -> schema, values to try at the position, one valid value
L(s, vals, ok) == [s |-> s, vals |-> vals, ok |-> ok]
LeafTable ==
  [ int    |-> L(("type" :> <<"integer">>) @@ ("minimum" :> JNum(8)) @@ ("maximum" :> JNum(16)),
                 <<JNum(4), JNum(8), JNum(16), JNum(20), JNum(10), SA, JBool(TRUE), JNull>>, JNum(12)),
    str    |-> L(("type" :> <<"string">>) @@ ("minLength" :> 2) @@ ("pattern" :> "p_a"),
                 <<SA, SAB, SBA, SB, JStr(<<"a", "b", "b">>), JNum(12), JNull>>, SAB),
    \* differ from str / int / enums / enumn only in the constraint values (same Go type): same-named types must not be merged
    str2   |-> L(("type" :> <<"string">>) @@ ("minLength" :> 1) @@ ("pattern" :> "p_b"),
                 <<SA, SAB, SBA, SB, JStr(<<"a", "b", "b">>), JNum(12), JNull>>, SAB),
    int2   |-> L(("type" :> <<"integer">>) @@ ("minimum" :> JNum(4)) @@ ("maximum" :> JNum(12)),
                 <<JNum(4), JNum(8), JNum(16), JNum(20), JNum(10), SA, JBool(TRUE), JNull>>, JNum(12)),
    enums2 |-> L([type |-> <<"string">>, enum |-> <<SA, SB>>], <<SA, SAB, SB, JNum(4)>>, SA),
    \* number enums that are pairwise equal after truncation to an integer
    enumn  |-> L([type |-> <<"number">>, enum |-> <<JNum(2), JNum(4), JNum(6)>>], <<JNum(2), JNum(4), JNum(6), JNum(1), JNum(7), JNum(0), SA>>, JNum(4)),
    enumn2 |-> L([type |-> <<"number">>, enum |-> <<JNum(1), JNum(4), JNum(7)>>], <<JNum(2), JNum(4), JNum(6), JNum(1), JNum(7), JNum(0), SA>>, JNum(4)),
    \* a named float type with multipleOf (did not compile before fix 1069fc9): leaf nummult below
    num    |-> L(("type" :> <<"number">>) @@ ("exclusiveMaximum" :> [k |-> "n", h |-> JNum(12)]) @@ ("minimum" :> JNum(-6)),
                 <<JNum(12), JNum(10), JNum(11), JNum(-6), JNum(-7), SA>>, JNum(10)),
    nummult |-> L(("type" :> <<"number">>) @@ ("multipleOf" :> 2) @@ ("minimum" :> JNum(2)),
                 <<JNum(2), JNum(3), JNum(4), JNum(0), JNum(10), JNum(9), SA>>, JNum(4)),
    bool   |-> L([type |-> <<"boolean">>], <<JBool(TRUE), JBool(FALSE), JNum(0), SA>>, JBool(TRUE)),
    enums  |-> L([type |-> <<"string">>, enum |-> <<SA, SAB>>], <<SA, SAB, SB, JNum(4)>>, SA),
    enumu  |-> L([enum |-> <<SA, JNum(4)>>], <<SA, JNum(4), JNum(8), SB, JBool(TRUE)>>, SA),
    arr    |-> L(("type" :> <<"array">>) @@ ("items" :> Int_) @@ ("minItems" :> 2) @@ ("maxItems" :> 3),
                 <<JArr(<<>>), JArr(<<JNum(0)>>), JArr(<<JNum(0), JNum(4)>>), JArr(<<JNum(0), JNum(0), JNum(0), JNum(0)>>),
                   JArr(<<JNum(0), SA>>), SA>>, JArr(<<JNum(0), JNum(4)>>)),
    \* differs from arr only in the limits
    arr2   |-> L(("type" :> <<"array">>) @@ ("items" :> Int_) @@ ("minItems" :> 1) @@ ("maxItems" :> 2),
                 <<JArr(<<>>), JArr(<<JNum(0)>>), JArr(<<JNum(0), JNum(4)>>), JArr(<<JNum(0), JNum(0), JNum(0)>>), SA>>, JArr(<<JNum(0)>>)),
    arrobj |-> L(("type" :> <<"array">>) @@ ("items" :> (("type" :> <<"object">>) @@ ("properties" :> <<[k |-> "k", s |-> Int_]>>)
                                                        @@ ("required" :> <<"k">>))),
                 <<JArr(<<>>), JArr(<<JObj(<<>>)>>), JArr(<<ObjK(JNum(0))>>), JArr(<<ObjK(SA)>>)>>, JArr(<<ObjK(JNum(0))>>)),
    \* items that are NULLABLE objects with a required key
    arrnobj |-> L(("type" :> <<"array">>) @@ ("items" :> (("type" :> <<"object", "null">>) @@ ("properties" :> <<[k |-> "k", s |-> Int_]>>)
                                                        @@ ("required" :> <<"k">>))),
                 <<JArr(<<>>), JArr(<<JObj(<<>>)>>), JArr(<<ObjK(JNum(0))>>), JArr(<<ObjK(JNum(0)), JObj(<<>>)>>), JArr(<<ObjK(SA)>>),
                   JArr(<<ObjK(JNum(4)), JNull>>)>>, JArr(<<ObjK(JNum(0))>>)),
    obj    |-> L(("type" :> <<"object">>) @@ ("properties" :> <<[k |-> "j", s |-> Str_],
                                                                [k |-> "k", s |-> ("type" :> <<"integer">>) @@ ("minimum" :> JNum(4))]>>)
                 @@ ("required" :> <<"k">>),
                 <<JObj(<<>>), ObjK(JNum(4)), ObjK(JNum(0)), JObj(<<KV("j", SA), KV("k", JNum(4))>>), JObj(<<KV("j", JNum(4)), KV("k", JNum(4))>>),
                   JObj(<<KV("k", JNum(4)), KV("z", JBool(TRUE))>>), SA, JArr(<<>>)>>, ObjK(JNum(4))),
    objdef |-> L(("type" :> <<"object">>) @@ ("properties" :> <<[k |-> "k", s |-> ("type" :> <<"integer">>) @@ ("default" :> JNum(8))]>>),
                 <<JObj(<<>>), ObjK(JNum(4)), ObjK(JNull), ObjK(SA)>>, JObj(<<>>)),
    \* differs from objdef only in an annotation-like keyword (the default value)
    objdef2 |-> L(("type" :> <<"object">>) @@ ("properties" :> <<[k |-> "k", s |-> ("type" :> <<"integer">>) @@ ("default" :> JNum(12))]>>),
                 <<JObj(<<>>), ObjK(JNum(4)), ObjK(JNull), ObjK(SA)>>, JObj(<<>>)),
    \* a required key with / without a default (a default lifts the presence check): differ only in the annotation
    oreqd  |-> L(("type" :> <<"object">>) @@ ("properties" :> <<[k |-> "k", s |-> ("type" :> <<"integer">>) @@ ("default" :> JNum(8))]>>)
                 @@ ("required" :> <<"k">>), <<JObj(<<>>), ObjK(JNum(4)), ObjK(SA)>>, ObjK(JNum(4))),
    oreq   |-> L(("type" :> <<"object">>) @@ ("properties" :> <<[k |-> "k", s |-> Int_]>>)
                 @@ ("required" :> <<"k">>), <<JObj(<<>>), ObjK(JNum(4)), ObjK(SA)>>, ObjK(JNum(4))),
    date   |-> L([type |-> <<"string">>, format |-> "date"], <<JFmt("date"), JNum(4), JBool(TRUE)>>, JFmt("date")),
    nint   |-> L(("type" :> <<"integer", "null">>) @@ ("minimum" :> JNum(8)), <<JNull, JNum(8), JNum(4), SA>>, JNum(8)),
    map    |-> L([type |-> <<"object">>, additionalProperties |-> [k |-> "s", s |-> Int_]],
                 <<JObj(<<>>), JObj(<<KV("a", JNum(4))>>), JObj(<<KV("a", SB)>>), SA>>, JObj(<<KV("a", JNum(4))>>)),
    allof  |-> L([type |-> <<"object">>, allOf |-> <<("type" :> <<"object">>) @@ ("properties" :> <<[k |-> "p", s |-> Int_]>>) @@ ("required" :> <<"p">>),
                             ("type" :> <<"object">>) @@ ("properties" :> <<[k |-> "q", s |-> Str_]>>)>>],
                 <<JObj(<<KV("p", JNum(4))>>), JObj(<<>>), JObj(<<KV("p", JNum(4)), KV("q", SA)>>), JObj(<<KV("p", JNum(4)), KV("q", JNum(4))>>)>>,
                 JObj(<<KV("p", JNum(4))>>)),
    \* the same conjunction without a `type` of its own (as a definition it was referenced as interface{} before fix 843f8be)
    allofnt |-> L([allOf |-> <<("type" :> <<"object">>) @@ ("properties" :> <<[k |-> "p", s |-> Int_]>>) @@ ("required" :> <<"p">>),
                             ("type" :> <<"object">>) @@ ("properties" :> <<[k |-> "q", s |-> Str_]>>)>>],
                 <<JObj(<<KV("p", JNum(4))>>), JObj(<<>>), JObj(<<KV("p", JNum(4)), KV("q", SA)>>), JObj(<<KV("p", JNum(4)), KV("q", JNum(4))>>)>>,
                 JObj(<<KV("p", JNum(4))>>)) ]
Leaves == DOMAIN LeafTable
\* the other leaf of the two-target layouts
AltOf(k) == CASE k = "bool" -> "int" [] k = "objdef" -> "objdef2" [] k = "objdef2" -> "objdef"
              [] k = "oreqd" -> "oreq" [] k = "oreq" -> "oreqd" [] k = "arr" -> "arr2" [] k = "arr2" -> "arr"
              [] k = "str" -> "str2" [] k = "str2" -> "str" [] k = "int" -> "int2" [] k = "int2" -> "int"
              [] k = "enums" -> "enums2" [] k = "enums2" -> "enums" [] k = "enumn" -> "enumn2" [] k = "enumn2" -> "enumn" [] OTHER -> "bool"
\* leaves that exist for the two-target layouts only
AltOnly == {"str2", "int2", "enums2", "enumn", "enumn2"}

Contexts == {"req", "opt", "item", "nested", "addl", "req2", "two", "twoall", "collide"}
GenericForms == {"inline", "defs", "definitions", "chain", "file", "filedef", "subdir", "updir", "yaml", "noext", "dotslash"}
\* a document that is the target of a file reference needs a typed root ("schema has no root" otherwise; the
\* tool turns an untyped root into an object): the untyped enum cannot be the root of a file
RootForms == {"file", "dotslash", "subdir", "updir", "yaml", "noext", "filechain", "filechainnt", "dotdot", "samefile"}
\* (leaf "date" is left out of "crossbranch": finding F-C10-cross-branch-local-ref, recorded with its witness, not yet modelled)
FormsOf0(c, k) == IF k \in AltOnly /\ c \notin {"two", "twoall", "collide"} THEN {} ELSE
                 (CASE c = "nested" -> GenericForms \cup {"filechain", "filechainnt"}
                    [] c = "req2"   -> GenericForms \cup {"dotdot"}
                    [] c = "two"    -> {"inline", "samefile", "samedef", "samedefinline"}
                    [] c = "twoall" -> {"inline", "samebranch", "crossbranch"}
                    [] c = "collide" -> {"inline", "namecollide", "leafcollide"}
                    [] OTHER        -> GenericForms) \ (IF k = "enumu" THEN RootForms ELSE {})
FormsOf(c, k) == FormsOf0(c, k) \ (IF k = "date" THEN {"crossbranch"} ELSE {})

(* ---------- references ---------- *)
RDefs(n)            == [ref |-> [k |-> "defs", n |-> n]]
RDefinitions(n)     == [ref |-> [k |-> "definitions", n |-> n]]
RPath(segs, frag, n) == [ref |-> [k |-> "path", segs |-> segs, frag |-> frag, n |-> n]]

Obj(props)       == ("type" :> <<"object">>) @@ ("properties" :> props)
ObjReq(props, r) == Obj(props) @@ ("required" :> r)
Empty == [title |-> "t"]                      \* a document that only carries definitions still needs a root
File(path, name, s, defs, yaml) == [path |-> path, name |-> name, s |-> s, defs |-> defs, yaml |-> yaml]

\* an allOf of branch b and a second object branch
AllOfC(b) == [type |-> <<"object">>, allOf |-> <<b, Obj(<<[k |-> "q", s |-> Str_]>>)>>]
\* the root object with schema x (and x2) at the position
RootOf(c, x, x2) ==
  CASE c = "req"    -> ObjReq(<<[k |-> "x", s |-> x]>>, <<"x">>)
    [] c = "opt"    -> Obj(<<[k |-> "x", s |-> x]>>)
    [] c = "item"   -> ObjReq(<<[k |-> "x", s |-> [type |-> <<"array">>, items |-> x]]>>, <<"x">>)
    [] c = "nested" -> ObjReq(<<[k |-> "x", s |-> Obj(<<[k |-> "y", s |-> x]>>)]>>, <<"x">>)
    [] c = "addl"   -> Obj(<<[k |-> "p", s |-> Int_]>>) @@ ("additionalProperties" :> [k |-> "s", s |-> x])
    [] c = "req2"   -> ObjReq(<<[k |-> "x", s |-> x], [k |-> "x2", s |-> x2]>>, <<"x", "x2">>)
    [] c \in {"two", "twoall", "collide"} -> Obj(<<[k |-> "a", s |-> x], [k |-> "b", s |-> x2]>>)

DocsOf(c, lf, alt) ==
  LET vs == lf.vals  ok == lf.ok IN
  CASE c \in {"req", "opt"} -> [i \in DOMAIN vs |-> JObj(<<KV("x", vs[i])>>)] \o <<JObj(<<>>)>>
    [] c = "item"   -> [i \in DOMAIN vs |-> JObj(<<KV("x", JArr(<<ok, vs[i]>>))>>)] \o <<JObj(<<KV("x", JArr(<<>>))>>)>>
    [] c = "nested" -> [i \in DOMAIN vs |-> JObj(<<KV("x", JObj(<<KV("y", vs[i])>>))>>)] \o <<JObj(<<KV("x", JObj(<<>>))>>)>>
    [] c = "addl"   -> [i \in DOMAIN vs |-> JObj(<<KV("e", vs[i]), KV("p", JNum(4))>>)] \o <<JObj(<<>>)>>
    [] c = "req2"   -> [i \in DOMAIN vs |-> JObj(<<KV("x", vs[i]), KV("x2", ok)>>)]
                       \o [i \in DOMAIN vs |-> JObj(<<KV("x", ok), KV("x2", vs[i])>>)]
    \* a.q.c holds the leaf, b.c the other leaf
    [] c = "collide" -> [i \in DOMAIN vs |-> JObj(<<KV("a", JObj(<<KV("q", JObj(<<KV("c", vs[i])>>))>>)), KV("b", JObj(<<KV("c", alt.ok)>>))>>)]
                        \o [i \in DOMAIN alt.vals |-> JObj(<<KV("a", JObj(<<KV("q", JObj(<<KV("c", ok)>>))>>)), KV("b", JObj(<<KV("c", alt.vals[i])>>))>>)]
                        \o <<JObj(<<KV("a", JObj(<<KV("q", JObj(<<>>))>>)), KV("b", JObj(<<>>))>>)>>
    [] c \in {"two", "twoall"} -> [i \in DOMAIN vs |-> JObj(<<KV("a", JObj(<<KV("c", vs[i])>>)), KV("b", JObj(<<KV("c", alt.ok)>>))>>)]
                       \o [i \in DOMAIN alt.vals |-> JObj(<<KV("a", JObj(<<KV("c", ok)>>)), KV("b", JObj(<<KV("c", alt.vals[i])>>))>>)]
                       \o [i \in DOMAIN vs |-> JObj(<<KV("b", JObj(<<KV("c", vs[i])>>))>>)]       \* the other leaf's values at b

\* A unit: root document (path, schema, $defs, legacy definitions), further files, options, documents.
MkUnit(c, k, f, rootpath, schema, defs, ldefs, files, exts, roottype) ==
  [prop |-> "C10", cls |-> k \o "/" \o c, ctx |-> c, kind |-> k, form |-> f,
   rootpath |-> rootpath, schema |-> schema, defs |-> defs, ldefs |-> ldefs, files |-> files, exts |-> exts, roottype |-> roottype,
   \* definition names that are written without their digit in the concrete files (N1, N2 -> N): two documents then
   \* declare same-named definitions while the specification keeps them apart
   strip |-> CASE f \in {"samedef", "samedefinline"} -> <<"N1", "N2", "M1", "M2">>
               [] f = "samebranch" -> <<"Base1", "Base2">>
               [] f = "crossbranch" -> <<"Tag1", "Tag2">>
               [] OTHER -> <<>>,
   docs |-> DocsOf(c, LeafTable[k], LeafTable[AltOf(k)])]

Unit(c, k, f) ==
  LET lf == LeafTable[k].s   alt == LeafTable[AltOf(k)].s
      top == <<"root.json">>
      one(r) == RootOf(c, r, r)
      plain(sch, defs, ldefs, files) == MkUnit(c, k, f, top, sch, defs, ldefs, files, <<>>, "RootJson")
  IN
  CASE f = "inline"      -> IF c = "two" THEN plain(RootOf(c, Obj(<<[k |-> "c", s |-> lf]>>), Obj(<<[k |-> "c", s |-> alt]>>)), <<>>, <<>>, <<>>)
                            ELSE IF c = "collide" THEN plain(RootOf(c, Obj(<<[k |-> "q", s |-> Obj(<<[k |-> "c", s |-> lf]>>)]>>), Obj(<<[k |-> "c", s |-> alt]>>)), <<>>, <<>>, <<>>)
                            ELSE IF c = "twoall" THEN plain(RootOf(c, AllOfC(Obj(<<[k |-> "c", s |-> lf]>>)), AllOfC(Obj(<<[k |-> "c", s |-> alt]>>))), <<>>, <<>>, <<>>)
                            ELSE plain(RootOf(c, lf, lf), <<>>, <<>>, <<>>)
    \* ONE document in which two schemas map to the same Go type name: definition P with an inline object property q
    \* (type PQ) and a definition named PQ
    [] f = "namecollide" -> plain(RootOf(c, RDefs("P"), RDefs("PQ")),
                                  <<[k |-> "P", s |-> Obj(<<[k |-> "q", s |-> Obj(<<[k |-> "c", s |-> lf]>>)]>>)], [k |-> "PQ", s |-> Obj(<<[k |-> "c", s |-> alt]>>)]>>, <<>>, <<>>)
    \* ONE document in which the two LEAVES are definitions whose names map to one Go type name (Nn and nn)
    [] f = "leafcollide" -> plain(RootOf(c, Obj(<<[k |-> "q", s |-> Obj(<<[k |-> "c", s |-> RDefs("Nn")]>>)]>>), Obj(<<[k |-> "c", s |-> RDefs("nn")]>>)),
                                  <<[k |-> "Nn", s |-> lf], [k |-> "nn", s |-> alt]>>, <<>>, <<>>)
    \* two documents whose allOf lists hold the textually identical branch "$ref": "#/$defs/Base" with different targets
    [] f = "samebranch"  -> plain(RootOf(c, RPath(<<"d1.json">>, "Wa", "Wa"), RPath(<<"d2.json">>, "Wb", "Wb")), <<>>, <<>>,
                                  <<File(<<"d1.json">>, "F1", Obj(<<>>), <<[k |-> "Base1", s |-> Obj(<<[k |-> "c", s |-> lf]>>)], [k |-> "Wa", s |-> AllOfC(RDefs("Base1"))]>>, FALSE),
                                    File(<<"d2.json">>, "F2", Obj(<<>>), <<[k |-> "Base2", s |-> Obj(<<[k |-> "c", s |-> alt]>>)], [k |-> "Wb", s |-> AllOfC(RDefs("Base2"))]>>, FALSE)>>)
    \* an allOf branch taken from ANOTHER document whose definition Base refers to a definition Tag local to that
    \* document, while the referring document declares a different Tag of its own (and uses it in its second list)
    [] f = "crossbranch" -> plain(RootOf(c, AllOfC(RPath(<<"lib", "base.json">>, "Base", "Base")), AllOfC(Obj(<<[k |-> "c", s |-> RDefs("Tag2")]>>))),
                                  <<[k |-> "Tag2", s |-> alt]>>, <<>>,
                                  <<File(<<"lib", "base.json">>, "F1", Obj(<<>>), <<[k |-> "Base", s |-> Obj(<<[k |-> "c", s |-> RDefs("Tag1")]>>)], [k |-> "Tag1", s |-> lf]>>, FALSE)>>)
    [] f = "defs"        -> plain(one(RDefs("N")), <<[k |-> "N", s |-> lf]>>, <<>>, <<>>)
    [] f = "definitions" -> plain(one(RDefinitions("N")), <<>>, <<[k |-> "N", s |-> lf]>>, <<>>)
    [] f = "chain"       -> plain(one(RDefs("M")), <<[k |-> "M", s |-> RDefs("N")], [k |-> "N", s |-> lf]>>, <<>>, <<>>)
    [] f = "file"        -> plain(one(RPath(<<"n.json">>, "", "N")), <<>>, <<>>, <<File(<<"n.json">>, "N", lf, <<>>, FALSE)>>)
    [] f = "dotslash"    -> plain(one(RPath(<<".", "n.json">>, "", "N")), <<>>, <<>>, <<File(<<"n.json">>, "N", lf, <<>>, FALSE)>>)
    [] f = "filedef"     -> plain(one(RPath(<<"n.json">>, "N", "N")), <<>>, <<>>,
                                  <<File(<<"n.json">>, "F", Obj(<<>>), <<[k |-> "N", s |-> lf]>>, FALSE)>>)
    [] f = "subdir"      -> plain(one(RPath(<<"sub", "n.json">>, "", "N")), <<>>, <<>>, <<File(<<"sub", "n.json">>, "N", lf, <<>>, FALSE)>>)
    [] f = "updir"       -> MkUnit(c, k, f, <<"sub", "root.json">>, one(RPath(<<"..", "n.json">>, "", "N")), <<>>, <<>>,
                              <<File(<<"n.json">>, "N", lf, <<>>, FALSE), File(<<"sub", "n.json">>, "Decoy", alt, <<>>, FALSE)>>, <<>>, "RootJson")
    [] f = "yaml"        -> plain(one(RPath(<<"n.yaml">>, "", "N")), <<>>, <<>>, <<File(<<"n.yaml">>, "N", lf, <<>>, TRUE)>>)
    \* extension probing: ".json" is tried before ".yaml"; the decoy n.yaml must lose
    [] f = "noext"       -> MkUnit(c, k, f, top, one(RPath(<<"n">>, "", "N")), <<>>, <<>>,
                              <<File(<<"n.json">>, "N", lf, <<>>, FALSE), File(<<"n.yaml">>, "Decoy", alt, <<>>, TRUE)>>, <<".json", ".yaml">>, "Root")
    \* x -> sub/m.json, whose y -> "n.json" means sub/n.json; the decoy n.json sits next to the root
    [] f = "filechain"   -> plain(ObjReq(<<[k |-> "x", s |-> RPath(<<"sub", "m.json">>, "", "Mf")]>>, <<"x">>), <<>>, <<>>,
                                  <<File(<<"sub", "m.json">>, "Mf", Obj(<<[k |-> "y", s |-> RPath(<<"n.json">>, "", "N")]>>), <<>>, FALSE),
                                    File(<<"sub", "n.json">>, "N", lf, <<>>, FALSE), File(<<"n.json">>, "Decoy", alt, <<>>, FALSE)>>)
    \* the same chain through a middle document whose root states NO type, only properties (the tool makes the root of a
    \* document an object; on the documents of the class -- x is always an object -- the two mean the same)
    [] f = "filechainnt" -> plain(ObjReq(<<[k |-> "x", s |-> RPath(<<"sub", "m.json">>, "", "Mf")]>>, <<"x">>), <<>>, <<>>,
                                  <<File(<<"sub", "m.json">>, "Mf", [properties |-> <<[k |-> "y", s |-> RPath(<<"n.json">>, "", "N")]>>], <<>>, FALSE),
                                    File(<<"sub", "n.json">>, "N", lf, <<>>, FALSE), File(<<"n.json">>, "Decoy", alt, <<>>, FALSE)>>)
    \* two spellings of one file
    [] f = "dotdot"      -> plain(RootOf(c, RPath(<<"n.json">>, "", "N"), RPath(<<"sub", "..", "n.json">>, "", "N")), <<>>, <<>>,
                                  <<File(<<"n.json">>, "N", lf, <<>>, FALSE), File(<<"sub", "pad.json">>, "Pad", Obj(<<>>), <<>>, FALSE)>>)
    \* two documents in different directories write the same relative reference "c.json"
    [] f = "samefile"    -> plain(RootOf(c, RPath(<<"d1", "a.json">>, "", "A1"), RPath(<<"d2", "b.json">>, "", "B1")), <<>>, <<>>,
                                  <<File(<<"d1", "a.json">>, "A1", Obj(<<[k |-> "c", s |-> RPath(<<"c.json">>, "", "C1")]>>), <<>>, FALSE),
                                    File(<<"d2", "b.json">>, "B1", Obj(<<[k |-> "c", s |-> RPath(<<"c.json">>, "", "C2")]>>), <<>>, FALSE),
                                    File(<<"d1", "c.json">>, "C1", lf, <<>>, FALSE), File(<<"d2", "c.json">>, "C2", alt, <<>>, FALSE)>>)
    \* two documents declare a definition N with the same text whose inner reference has different targets
    [] f = "samedef"     -> plain(RootOf(c, RPath(<<"d1.json">>, "N1", "N1"), RPath(<<"d2.json">>, "N2", "N2")), <<>>, <<>>,
                                  <<File(<<"d1.json">>, "F1", Obj(<<>>), <<[k |-> "M1", s |-> lf], [k |-> "N1", s |-> Obj(<<[k |-> "c", s |-> RDefs("M1")]>>)]>>, FALSE),
                                    File(<<"d2.json">>, "F2", Obj(<<>>), <<[k |-> "M2", s |-> alt], [k |-> "N2", s |-> Obj(<<[k |-> "c", s |-> RDefs("M2")]>>)]>>, FALSE)>>)
    \* ... and with different inline content
    [] f = "samedefinline" -> plain(RootOf(c, RPath(<<"d1.json">>, "N1", "N1"), RPath(<<"d2.json">>, "N2", "N2")), <<>>, <<>>,
                                  <<File(<<"d1.json">>, "F1", Obj(<<>>), <<[k |-> "N1", s |-> Obj(<<[k |-> "c", s |-> lf]>>)]>>, FALSE),
                                    File(<<"d2.json">>, "F2", Obj(<<>>), <<[k |-> "N2", s |-> Obj(<<[k |-> "c", s |-> alt]>>)]>>, FALSE)>>)

\* In the concrete files the definitions N1/N2 (M1/M2) of "samedef" carry the SAME name: the harness strips the
\* digit (abs: name before the first digit) -- in the specification they stay distinct so that the environment
\* of Valid is a plain name -> schema map.

(* ---------- environment, inlining ---------- *)
Env(un) == UnitEnv(un)

RECURSIVE Deref(_, _, _)
Deref(env, s, fuel) ==
  IF fuel = 0 THEN s
  ELSE IF Has(s, "ref") THEN Deref(env, EnvGet(env, s.ref.n), fuel - 1)
  ELSE [f \in DOMAIN s |->
          CASE f = "properties" -> [i \in DOMAIN s.properties |-> [k |-> s.properties[i].k, s |-> Deref(env, s.properties[i].s, fuel)]]
            [] f = "items"      -> Deref(env, s.items, fuel)
            [] f = "additionalProperties" -> IF s.additionalProperties.k = "s"
                                             THEN [k |-> "s", s |-> Deref(env, s.additionalProperties.s, fuel)] ELSE s.additionalProperties
            [] f = "allOf"      -> [i \in DOMAIN s.allOf |-> Deref(env, s.allOf[i], fuel)]
            [] OTHER -> s[f]]

(* ---------- the loads of a run, in the generator's visiting order ---------- *)
FileNamed(un, n) == CHOOSE i \in DOMAIN un.files : un.files[i].name = n \/ \E j \in DOMAIN un.files[i].defs : un.files[i].defs[j].k = n
RECURSIVE Walk(_, _, _, _)
Walk(un, from, s, fuel) ==
  IF fuel = 0 THEN <<>>
  ELSE IF Has(s, "ref") THEN
       IF s.ref.k = "path" THEN
            LET fi == FileNamed(un, s.ref.n)  tf == un.files[fi] IN
            <<[from |-> from, segs |-> s.ref.segs, root |-> un.rootpath, n |-> s.ref.n, want |-> tf.path]>>
            \o Walk(un, tf.path, EnvGet(Env(un), s.ref.n), fuel - 1)
       ELSE Walk(un, from, EnvGet(Env(un), s.ref.n), fuel - 1)
  ELSE (IF Has(s, "properties") THEN FlattenSeq([i \in DOMAIN s.properties |-> Walk(un, from, s.properties[i].s, fuel)]) ELSE <<>>)
       \o (IF Has(s, "items") THEN Walk(un, from, s.items, fuel) ELSE <<>>)
       \o (IF Has(s, "additionalProperties") /\ s.additionalProperties.k = "s" THEN Walk(un, from, s.additionalProperties.s, fuel) ELSE <<>>)
Loads(un) == Walk(un, un.rootpath, un.schema, 5)
FSOf(un) == {un.rootpath} \cup {un.files[i].path : i \in DOMAIN un.files}

u == Unit(ctx, leaf, form)
base == Unit(ctx, leaf, "inline")
Set == form # "?"

FactorOK ==
  Set => LET un == u  b == base IN
         /\ (form = "filechainnt" \/ Deref(Env(un), un.schema, 6) = b.schema)
         /\ un.docs = b.docs
         /\ \A i \in DOMAIN un.docs :
               Valid(Env(un), un.schema, un.docs[i], {}, "decl", NoLim) = Valid(<<>>, b.schema, b.docs[i], {}, "decl", NoLim)

\* every load returns the file the enumerator meant (want), which is what the file system says
ResolveOK ==
  Set => LET un == u  lds == Loads(un) IN
         /\ LoadAll(FSOf(un), un.exts, lds, {}, {}) = [i \in DOMAIN lds |-> lds[i].want]
         /\ RelativeToDocument(FSOf(un), un.exts, lds, {})
\* the deviation switches are necessary and sufficient for the layouts built to expose them
SwitchesBite ==
  Set => LET un == u  lds == Loads(un) IN
         /\ (form = "samefile") = ~RelativeToDocument(FSOf(un), un.exts, lds, {"CacheKeyedByRawRef"})
         /\ (form \in {"filechain", "filechainnt", "samefile"}) = ~RelativeToDocument(FSOf(un), un.exts, lds, {"NestedRefRelativeToRoot"})

DesignOK == FactorOK /\ ResolveOK /\ SwitchesBite
\* with the open deviations the loader still resolves every reference of every layout as the file system says,
\* except in the layouts built to expose an open loader deviation
AsIsOK == Set => LET un == u IN
            \/ RelativeToDocument(FSOf(un), un.exts, Loads(un), Devs)
            \/ ("CacheKeyedByRawRef" \in Devs /\ form = "samefile")
            \/ ("NestedRefRelativeToRoot" \in Devs /\ form \in {"filechain", "filechainnt", "samefile"})

Init == leaf \in Leaves /\ ctx \in Contexts /\ form = "?"
Pick == /\ form = "?"
        /\ form' \in FormsOf(ctx, leaf)
        /\ UNCHANGED <<leaf, ctx>>
Next == Pick
Spec == Init /\ [][Next]_vars

Emit == Set => (UnitsFile = "" \/ LET un == u IN PrintT("UNIT " \o ToJson(un @@ [loads |-> Loads(un)])))
=============================================================================
