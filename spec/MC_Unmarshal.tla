---------------------------- MODULE MC_Unmarshal ----------------------------
(* Model-checking harness of the Unmarshal step machine: checks Total, AllOrNothing,        *)
(* ErrMeansUntouched and Terminates for one configuration, and prints every reachable        *)
(* terminal outcome -- the table Trace_C19 judges observed calls against.                    *)
EXTENDS Unmarshal, Sequences, Json
CONSTANT Tag
EmitOutcome == pc \in {"done", "panicked"} =>
  PrintT("OUTCOME " \o ToJson([tag |-> Tag, hasRaw |-> HasRaw, hasAddl |-> HasAddl, rawNil |-> rawNil,
                              err |-> err, panicked |-> pc = "panicked", changed |-> dest = "new"]))
=============================================================================
