------------------------------ MODULE MC_C02 ------------------------------
(***************************************************************************)
(* C02 -- valid documents are accepted and decoded without loss.             *)
(* This module adds the units that only C02 needs; the C02 check also         *)
(* re-judges the units of MC_C03 .. MC_C08 for value fidelity on every         *)
(* document that is valid under the reference semantics.                       *)
(*  addl    objects with declared properties and additionalProperties          *)
(*          (true, {}, or typed): every subset of extra keys, including a key   *)
(*          equal to a Go field name, a case variant of a declared key, ""      *)
(*  fmt     format-typed strings at required / optional / item positions        *)
(*  big     integers beyond 2^53 (no precision loss), nested depth 3            *)
(***************************************************************************)
EXTENDS JV, Json, SequencesExt

CONSTANTS UnitsFile, Devs

VARIABLES fam, par         \* par = "?" while unset
vars == <<fam, par>>

Int_ == [type |-> <<"integer">>]
Str_ == [type |-> <<"string">>]
SA == JStr(<<"a">>)
Big(sg, e, o) == [t |-> "big", sg |-> sg, e |-> e, o |-> o]

(* ---- addl ---- *)
AddlKinds == {"true", "empty", "string", "integer", "number", "boolean", "array", "object", "true+req", "empty+req"}
Base(k) == IF k = "true+req" THEN "true" ELSE IF k = "empty+req" THEN "empty" ELSE k
WithReq(k) == k \in {"true+req", "empty+req"}
AddlSchema(k) ==
  CASE k = "true"  -> [k |-> "b", b |-> TRUE]
    [] k = "empty" -> [k |-> "s", s |-> [type |-> <<>>]]
    [] k = "array" -> [k |-> "s", s |-> [type |-> <<"array">>, items |-> Int_]]
    [] k = "object" -> [k |-> "s", s |-> ("type" :> <<"object">>) @@ ("properties" :> <<[k |-> "k", s |-> Int_]>>)]
    [] OTHER -> [k |-> "s", s |-> [type |-> <<k>>]]
AddlVal(k) ==
  CASE k \in {"true", "empty", "string"} -> SA
    [] k \in {"integer", "number"} -> JNum(8)
    [] k = "boolean" -> JBool(TRUE)
    [] k = "array" -> JArr(<<JNum(4)>>)
    [] k = "object" -> JObj(<<KV("k", JNum(4))>>)
ExtraKeys == <<"e", "MyField", "MY_FIELD", "">>
RECURSIVE SubLists(_)
SubLists(s) == IF s = <<>> THEN {<<>>} ELSE LET r == SubLists(Tail(s)) IN r \cup {<<Head(s)>> \o t : t \in r}
AddlUnit(k0) ==
  LET k == Base(k0)
      s == ("type" :> <<"object">>)
           @@ ("properties" :> <<[k |-> "my_field", s |-> Int_], [k |-> "p", s |-> Str_]>>)
           @@ ("additionalProperties" :> AddlSchema(k))
           @@ (IF WithReq(k0) THEN "required" :> <<"p">> ELSE <<>>)
      docsFor(base) == {JObj(base \o [i \in DOMAIN ks |-> KV(ks[i], AddlVal(k))]) : ks \in SubLists(ExtraKeys)}
  IN [prop |-> "C02", fam |-> "addl", par |-> k0, schema |-> s, defs |-> <<>>,
      docs |-> SetToSeq(docsFor(<<KV("my_field", JNum(4)), KV("p", SA)>>)
                        \cup (IF WithReq(k0) THEN {} ELSE docsFor(<<>>))),
      \* (with another validator present an unmarshaler is generated; before fix 43222c6 its additional-properties
      \* block referred to raw / reflect / strings / mapstructure without declaring or importing them)
      nobuild |-> <<>>]

(* ---- fmt ---- *)
\* positions: required / optional / array items written inline; nreq / nitem / nmap: a NULLABLE format definition
\* ([string, null]) reached through $ref as a required property, as array items, as the values of a map -- the Go
\* type is a pointer to a type of another package, and a null must stay nil
FmtPars == Formats \X {"req", "opt", "item", "nreq", "nitem", "nmap"}
FmtUnit(p) ==
  LET viaDef == p[2] \in {"nreq", "nitem", "nmap"}
      leaf == [type |-> IF viaDef THEN <<"string", "null">> ELSE <<"string">>, format |-> p[1]]
      at == IF viaDef THEN [ref |-> [k |-> "defs", n |-> "F"]] ELSE leaf
      xs == CASE p[2] \in {"item", "nitem"} -> [type |-> <<"array">>, items |-> at]
              [] p[2] = "nmap" -> [type |-> <<"object">>, additionalProperties |-> [k |-> "s", s |-> at]]
              [] OTHER -> at
      wrap(e1, e2) == CASE p[2] \in {"item", "nitem"} -> JArr(<<e1, e2>>)
                        [] p[2] = "nmap" -> JObj(<<KV("j", e1), KV("k", e2)>>)
                        [] OTHER -> e2
      v == wrap(JFmt(p[1]), JFmt(p[1]))
      fvs == SetToSeq(FmtVariants(p[1]))
      vdoc(i) == JObj(<<KV("x", wrap(JFmt(p[1]), JFmtV(p[1], fvs[i])))>>)
  IN [prop |-> "C02", fam |-> "fmt", par |-> p[1] \o "/" \o p[2],
      schema |-> ("type" :> <<"object">>) @@ ("properties" :> <<[k |-> "x", s |-> xs]>>)
                 @@ (IF p[2] = "opt" THEN <<>> ELSE "required" :> <<"x">>),
      defs |-> IF viaDef THEN <<[k |-> "F", s |-> leaf]>> ELSE <<>>,
      docs |-> <<JObj(<<KV("x", v)>>)>> \o (IF p[2] = "opt" THEN <<JObj(<<>>)>> ELSE <<>>) \o [i \in DOMAIN fvs |-> vdoc(i)]
               \o (IF viaDef THEN <<JObj(<<KV("x", wrap(JFmt(p[1]), JNull))>>), JObj(<<KV("x", wrap(JNull, JNull))>>)>> ELSE <<>>),
      nobuild |-> <<>>]

(* ---- big / deep ---- *)
BigUnit ==
  LET deep == ("type" :> <<"object">>) @@ ("properties" :> <<[k |-> "a", s |->
                ("type" :> <<"object">>) @@ ("properties" :> <<[k |-> "b", s |->
                  ("type" :> <<"object">>) @@ ("properties" :> <<[k |-> "c", s |->
                     [type |-> <<"array">>, items |-> ("type" :> <<"object">>) @@ ("properties" :> <<[k |-> "d", s |-> Int_]>>)]]>>)]>>)]>>)
      s == ("type" :> <<"object">>) @@ ("properties" :> <<[k |-> "i", s |-> Int_], [k |-> "n", s |-> [type |-> <<"number">>]],
                                                          [k |-> "deep", s |-> deep]>>)
      dd(x) == JObj(<<KV("a", JObj(<<KV("b", JObj(<<KV("c", JArr(<<JObj(<<KV("d", x)>>), JObj(<<KV("d", JNum(-4))>>)>>))>>))>>))>>)
  IN [prop |-> "C02", fam |-> "big", par |-> "-", schema |-> s, defs |-> <<>>,
      docs |-> << JObj(<<KV("i", Big(1, 53, 1))>>), JObj(<<KV("i", Big(1, 63, -1))>>), JObj(<<KV("i", Big(-1, 63, 0))>>),
                  JObj(<<KV("n", JNum(-3))>>), JObj(<<KV("n", Big(1, 31, 1))>>),
                  JObj(<<KV("deep", dd(JNum(4)))>>), JObj(<<KV("deep", dd(Big(1, 53, 1))), KV("i", JNum(0)), KV("n", JNum(1))>>) >>,
      nobuild |-> <<>>]

(* ---- names: a definition whose Go type name collides with the generated code's local names ---- *)
NameUnit(n) ==
  LET t == ("type" :> <<"object">>) @@ ("properties" :> <<[k |-> "text", s |-> Str_],
                 [k |-> "charset", s |-> ("type" :> <<"string">>) @@ ("default" :> SA)]>>) @@ ("required" :> <<"text">>)
      \* next to it ANOTHER struct with declared properties and typed additional properties: its generated methods use
      \* the local names (Plain, raw, ...) too
      h == ("type" :> <<"object">>) @@ ("properties" :> <<[k |-> "from", s |-> Str_], [k |-> "n", s |-> [type |-> <<"integer">>]]>>)
           @@ ("additionalProperties" :> [k |-> "s", s |-> [type |-> <<"integer">>]])
      xdoc == JObj(<<KV("text", SA)>>)
  IN [prop |-> "C02", fam |-> "names", par |-> n,
      schema |-> ("type" :> <<"object">>) @@ ("properties" :> <<[k |-> "h", s |-> h], [k |-> "x", s |-> [ref |-> [k |-> "defs", n |-> n]]]>>)
                 @@ ("required" :> <<"x">>),
      defs |-> <<[k |-> n, s |-> t]>>,
      docs |-> << JObj(<<KV("x", JObj(<<KV("text", SA)>>))>>), JObj(<<KV("x", JObj(<<KV("text", SA), KV("charset", JStr(<<"b">>))>>))>>),
                  JObj(<<KV("x", JObj(<<>>))>>),
                  JObj(<<KV("h", JObj(<<KV("from", SA), KV("n", JNum(4))>>)), KV("x", xdoc)>>),
                  JObj(<<KV("h", JObj(<<KV("extra", JNum(8)), KV("from", SA), KV("n", JNum(4))>>)), KV("x", xdoc)>>),
                  JObj(<<KV("h", JObj(<<KV("extra", JNum(8))>>)), KV("x", xdoc)>>) >>,
      nobuild |-> <<>>]

Pars(f) == CASE f = "names" -> {"Plain", "plain", "Raw", "Value", "J"} [] f = "addl" -> AddlKinds [] f = "fmt" -> {p[1] \o "/" \o p[2] : p \in FmtPars} [] f = "big" -> {"-"}
u == CASE fam = "addl" -> AddlUnit(par)
       [] fam = "names" -> NameUnit(par)
       [] fam = "fmt"  -> FmtUnit(CHOOSE p \in FmtPars : p[1] \o "/" \o p[2] = par)
       [] fam = "big"  -> BigUnit
Set == par # "?"

\* design-level sanity: every document is valid under the reference semantics and the reference
\* relation Decoded holds for the document itself as the dump of a faithful decoder would look
DesignOK == Set => LET unit == u IN
  \A i \in DOMAIN unit.docs : Valid(unit.defs, unit.schema, unit.docs[i], {}, "decl", NoLim) = Acc \/ unit.fam = "names"
AsIsOK == TRUE

Init == fam \in {"addl", "fmt", "big", "names"} /\ par = "?"
Pick == par = "?" /\ par' \in Pars(fam) /\ UNCHANGED fam
Next == Pick
Spec == Init /\ [][Next]_vars

Emit == Set => (UnitsFile = "" \/ LET unit == u IN PrintT("UNIT " \o ToJson(unit)))
=============================================================================
