------------------------------ MODULE Trace_EQ ------------------------------
(***************************************************************************)
(* Trace specification for the properties that relate SEVERAL runs of the      *)
(* real generator to each other (C12 determinism, C13 equivalent spellings):    *)
(* one event per equivalence class,                                             *)
(*   [class |-> description, variants |-> << [desc, ok, key] >>]                 *)
(* where key identifies the complete output of a run (file names and bytes).     *)
(* Every variant must succeed and produce the key of the first variant.           *)
(* A variant whose desc names an open deviation (field dev, "" if none) is         *)
(* excused when it differs.                                                        *)
(***************************************************************************)
EXTENDS Integers, Sequences, FiniteSets, TLC, Json

CONSTANTS ObsFile, Devs
VARIABLES l, tally
vars == <<l, tally>>
Obs == ndJsonDeserialize(ObsFile)

\* (a schema the generator refuses is refused in every variant: that is deterministic too)
Same(e, i) == /\ e.variants[i].ok = e.variants[1].ok
              /\ e.variants[i].ok => e.variants[i].key = e.variants[1].key
Classify(e, i) == IF Same(e, i) THEN "ok"
                  ELSE IF e.variants[i].dev # "" /\ e.variants[i].dev \in Devs THEN "known" ELSE "violation"
Report(n, e, i, c) ==
  PrintT("REPORT " \o ToJson([l |-> n, i |-> i, class |-> c, kind |-> "equal-output", devs |-> <<e.variants[i].dev>>,
                             ref |-> "same output as variant 1", obs |-> e.variants[i].desc, impl |-> "-"]))
Count(cls, c) == Cardinality({i \in DOMAIN cls : cls[i] = c})
Step(n, e, t) ==
  LET cls == [i \in DOMAIN e.variants |-> Classify(e, i)] IN
  IF \A i \in DOMAIN cls : cls[i] = "ok" \/ Report(n, e, i, cls[i])
  THEN [ok |-> t.ok + Count(cls, "ok"), un |-> 0, known |-> t.known + Count(cls, "known"), viol |-> t.viol + Count(cls, "violation"),
        drift |-> 0, acc |-> t.acc + Len(e.variants), rej |-> t.rej + 1]
  ELSE t
Init == l = 0 /\ tally = [ok |-> 0, un |-> 0, known |-> 0, viol |-> 0, drift |-> 0, acc |-> 0, rej |-> 0]
Next == l < Len(Obs) /\ l' = l + 1 /\ tally' = Step(l + 1, Obs[l + 1], tally)
Spec == Init /\ [][Next]_vars
Done == l = Len(Obs) => PrintT("TALLY " \o ToJson(tally))
Accepted == TLCGet("stats").diameter = Len(Obs) + 1
=============================================================================
