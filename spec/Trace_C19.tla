----------------------------- MODULE Trace_C19 -----------------------------
(***************************************************************************)
(* Trace specification for C19: every observed call of a generated unmarshal  *)
(* method (real code) is compared with the terminal outcomes of the           *)
(* Unmarshal step machine that TLC computed (TableFile, written from the       *)
(* OUTCOME lines of MC_Unmarshal for every configuration, once for the         *)
(* intended design -- tag "design" -- and once with the open deviations --     *)
(* tag "asis").  Event: [hasRaw, hasAddl, calls |-> << [rawNil, err, panicked, *)
(* changed] >>].                                                               *)
(*   violation  the call panicked, or returned an error after changing the     *)
(*              destination, and the as-is model does not predict it            *)
(*   known      the as-is model (open deviations) has exactly this outcome      *)
(*   drift      property holds but the outcome is not a terminal state of the   *)
(*              model for this configuration                                     *)
(***************************************************************************)
EXTENDS Naturals, Sequences, FiniteSets, TLC, Json

CONSTANTS ObsFile, TableFile
VARIABLES l, tally
vars == <<l, tally>>

Obs == ndJsonDeserialize(ObsFile)
Table == ndJsonDeserialize(TableFile)

InTable(tag, e, c) ==
  \E i \in DOMAIN Table :
     LET r == Table[i] IN
     /\ r.tag = tag /\ r.hasRaw = e.hasRaw /\ r.hasAddl = e.hasAddl /\ r.rawNil = c.rawNil
     /\ r.err = c.err /\ r.panicked = c.panicked /\ r.changed = c.changed

\* a successful call may leave the destination equal to its prior value: "changed" is then FALSE
InTableLoose(tag, e, c) == InTable(tag, e, c) \/ (~c.err /\ ~c.panicked /\ ~c.changed /\ InTable(tag, e, [c EXCEPT !.changed = TRUE]))

PropertyHolds(c) == ~c.panicked /\ (c.err => ~c.changed)

\* a null inside the document reaches, through the root call, the method of a NESTED type that fills typed additional
\* properties: the outcome is then the one the as-is machine has for that configuration on a nil raw map
NestedOutcome(e, c) ==
  /\ "nestedAddl" \in DOMAIN e /\ e.nestedAddl /\ "hasNull" \in DOMAIN c /\ c.hasNull
  /\ \E i \in DOMAIN Table :
        LET r == Table[i] IN
        /\ r.tag = "asis" /\ r.hasRaw /\ r.hasAddl /\ r.rawNil
        /\ r.err = c.err /\ r.panicked = c.panicked /\ r.changed = c.changed

Class(e, c) ==
  IF PropertyHolds(c) THEN (IF InTableLoose("asis", e, c) THEN "ok" ELSE "drift")
  ELSE IF InTableLoose("asis", e, c) \/ NestedOutcome(e, c) THEN "known" ELSE "violation"

Report(n, i, e, c, k) ==
  PrintT("REPORT " \o ToJson([l |-> n, i |-> i, class |-> k, kind |-> "total", devs |-> <<"AddlNullPanics">>,
                             ref |-> "no panic; error => destination unchanged",
                             obs |-> ToJson(c), impl |-> "-"]))

Count(cls, k) == Cardinality({i \in DOMAIN cls : cls[i] = k})
Step(n, e, t) ==
  LET cls == [i \in DOMAIN e.calls |-> Class(e, e.calls[i])] IN
  IF \A i \in DOMAIN cls : cls[i] = "ok" \/ Report(n, i, e, e.calls[i], cls[i])
  THEN [ok |-> t.ok + Count(cls, "ok") + Count(cls, "drift"), un |-> 0, known |-> t.known + Count(cls, "known"),
        viol |-> t.viol + Count(cls, "violation"), drift |-> t.drift + Count(cls, "drift"),
        acc |-> t.acc + Cardinality({i \in DOMAIN cls : ~e.calls[i].err}),
        rej |-> t.rej + Cardinality({i \in DOMAIN cls : e.calls[i].err})]
  ELSE t

Init == l = 0 /\ tally = [ok |-> 0, un |-> 0, known |-> 0, viol |-> 0, drift |-> 0, acc |-> 0, rej |-> 0]
Next == l < Len(Obs) /\ l' = l + 1 /\ tally' = Step(l + 1, Obs[l + 1], tally)
Spec == Init /\ [][Next]_vars
Done == l = Len(Obs) => PrintT("TALLY " \o ToJson(tally))
Accepted == TLCGet("stats").diameter = Len(Obs) + 1
=============================================================================
