SPECIFICATION Spec
CONSTANTS
  ObsFile = "obs.ndjson"
  Devs = {}
  Judge = "verdict"
INVARIANT Done
POSTCONDITION Accepted
CHECK_DEADLOCK FALSE
