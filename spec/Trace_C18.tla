----------------------------- MODULE Trace_C18 -----------------------------
(***************************************************************************)
(* Trace specification for C18: every real run of the command line tool is    *)
(* judged against the statement (RefOK) and against the terminal outcomes of   *)
(* the CLI phase machine that TLC computed for the same scenario with the open  *)
(* deviations (field asis of the event: the OUTCOME rows of MC_C18).             *)
(* Event: [sc |-> scenario, obs |-> observation, asis |-> << outcome rows >>].    *)
(* sc.flags = "bytes" marks the byte-level sweep (arbitrary file content): only   *)
(* the outcome SHAPE is judged.                                                   *)
(***************************************************************************)
EXTENDS Integers, Sequences, FiniteSets, TLC, Json

CONSTANTS ObsFile
VARIABLES l, tally
vars == <<l, tally>>

Obs == ndJsonDeserialize(ObsFile)
EitherFaults == {"refhash", "refhashslash", "refdefsempty", "defaultemptykey", "badgotype", "selfallof", "selfanyof", "recallof"}
\* scenarios whose successful output is, by construction, not valid Go: "complete" means written, not parsable
\* (byte-level mutations of a valid schema can produce names or texts whose emitted code is not valid Go either)
Unparsable(sc) == sc.flags = "bytes" \/ \E k \in DOMAIN sc.args : sc.args[k].fault = "badgotype"

AnyBad(sc) == sc.flags # "ok" \/ \E k \in DOMAIN sc.args : sc.args[k].status = "bad" /\ sc.args[k].fault \notin EitherFaults
AllOk(sc)  == sc.flags = "ok" /\ \A k \in DOMAIN sc.args : sc.args[k].status = "ok"

CleanFail(o) == /\ o.exit # 0 /\ ~o.timedout /\ ~o.panic /\ o.stderr
                /\ ~o.stdout /\ o.created = <<>> /\ o.modified = <<>>
Success(sc, o) == /\ o.exit = 0 /\ ~o.panic /\ ~o.timedout
                  /\ IF Unparsable(sc) THEN (IF sc.outmode = "stdout" THEN o.stdout ELSE o.outputsthere = o.outputswanted)
                     ELSE IF sc.outmode = "stdout" THEN o.stdoutgo ELSE o.outputsok = o.outputswanted

RefOK(sc, o) ==
  IF sc.flags = "bytes" THEN Success(sc, o) \/ CleanFail(o)
  ELSE IF AnyBad(sc) THEN CleanFail(o)
  ELSE IF AllOk(sc) THEN Success(sc, o)
  ELSE Success(sc, o) \/ CleanFail(o)

Matches(sc, row, o) ==
  \/ row.exit = 2 /\ o.panic
  \/ row.exit = 99 /\ o.timedout
  \/ row.exit = 0 /\ Success(sc, o)
  \/ row.exit = 1 /\ CleanFail(o)
Predicted(e) == \E k \in DOMAIN e.asis : Matches(e.sc, e.asis[k], e.obs)

Class(e) ==
  IF RefOK(e.sc, e.obs) THEN (IF e.sc.flags = "bytes" \/ Predicted(e) THEN "ok" ELSE "drift")
  ELSE IF e.sc.flags # "bytes" /\ Predicted(e) THEN "known" ELSE "violation"

Report(n, e, c) ==
  PrintT("REPORT " \o ToJson([l |-> n, i |-> 1, class |-> c, kind |-> "cli", devs |-> <<>>,
                             ref |-> IF e.sc.flags = "bytes" THEN "success or clean failure"
                                     ELSE IF AnyBad(e.sc) THEN "clean failure" ELSE IF AllOk(e.sc) THEN "success" ELSE "success or clean failure",
                             obs |-> ToJson(e.obs), impl |-> ToJson(e.asis)]))

Step(n, e, t) ==
  LET c == Class(e) IN
  IF c = "ok" \/ Report(n, e, c)
  THEN [ok |-> t.ok + (IF c \in {"ok", "drift"} THEN 1 ELSE 0), un |-> 0,
        known |-> t.known + (IF c = "known" THEN 1 ELSE 0), viol |-> t.viol + (IF c = "violation" THEN 1 ELSE 0),
        drift |-> t.drift + (IF c = "drift" THEN 1 ELSE 0),
        acc |-> t.acc + (IF e.obs.exit = 0 THEN 1 ELSE 0), rej |-> t.rej + (IF e.obs.exit # 0 THEN 1 ELSE 0)]
  ELSE t

Init == l = 0 /\ tally = [ok |-> 0, un |-> 0, known |-> 0, viol |-> 0, drift |-> 0, acc |-> 0, rej |-> 0]
Next == l < Len(Obs) /\ l' = l + 1 /\ tally' = Step(l + 1, Obs[l + 1], tally)
Spec == Init /\ [][Next]_vars
Done == l = Len(Obs) => PrintT("TALLY " \o ToJson(tally))
Accepted == TLCGet("stats").diameter = Len(Obs) + 1
=============================================================================
