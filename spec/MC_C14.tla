------------------------------ MODULE MC_C14 ------------------------------
(***************************************************************************)
(* C14 -- every name maps to a valid, distinct Go identifier bound to its key. *)
(* TLC enumerates EVERY name of length 1..MaxLen over the 13 character classes  *)
(* (quick: 3, thorough: 4), runs the identifier machine (spec/Names.tla) and     *)
(* checks that the intended design always yields a valid exported identifier     *)
(* and that the as-is model departs from it only where a deviation says so.       *)
(* Each name is emitted with the predicted category sequence of its identifier;   *)
(* the harness feeds the real generator with a representative rune per class.      *)
(***************************************************************************)
EXTENDS Names, Json

CONSTANTS UnitsFile, Devs, MaxLen

VARIABLES len, name       \* name = <<>> while unset
vars == <<len, name>>

Names_(n) == [1..n -> ClassIds]

DesignOK == name # <<>> => ValidExported(Cats(Identifierize(name, {})))
\* the as-is model is invalid exactly when a deviation applies to this name
HasNx(nm) == \E k \in DOMAIN nm : Class[nm[k]].cat = "Nx"
AsIsOK == name # <<>> =>
  LET cats == Cats(Identifierize(name, Devs)) IN
  ValidExported(cats) \/ ("IllegalNumeralInIdent" \in Devs /\ HasNx(name)) \/ ("UnexportedNoUpperLower" \in Devs /\ cats[1] = "Ll")

Init == len \in 1..MaxLen /\ name = <<>>
Pick == name = <<>> /\ name' \in Names_(len) /\ UNCHANGED len
Next == Pick
Spec == Init /\ [][Next]_vars

Emit == name # <<>> => (UnitsFile = "" \/ PrintT("NAME " \o ToJson([name |-> name, cats |-> Cats(Identifierize(name, Devs)),
                                                                     ok |-> ValidExported(Cats(Identifierize(name, Devs)))])))
=============================================================================
