----------------------------- MODULE Unmarshal -----------------------------
(***************************************************************************)
(* STEP MACHINE of one call of a generated UnmarshalJSON / UnmarshalYAML     *)
(*   pkg/generator/json_formatter.go generate, yaml_formatter.go generate    *)
(* One action per statement group of the emitted method:                     *)
(*   RawDecode   var raw map[string]interface{}; Unmarshal(value, &raw)      *)
(*   Before      validators with beforeJSONUnmarshal (required, anyOf)       *)
(*   PlainDecode type Plain T; var plain Plain; Unmarshal(value, &plain)     *)
(*   After       default / null-type / string / numeric / array validators   *)
(*   AddlProps   delete declared keys; mapstructure.Decode(raw, &plain.AP)   *)
(*   Assign      *j = T(plain); return nil                                   *)
(* The environment (the input bytes) chooses the outcome of each step.        *)
(* dest is abstract: "prior" until the method overwrites *j, then "new".      *)
(* Properties (C19): Total == the method never panics;                       *)
(* AllOrNothing == *j changes only in Assign, and Assign is only reached      *)
(* without an error.                                                          *)
(* Panic sources are deviations: "AddlNullPanics" (mapstructure.Decode from a  *)
(* nil raw map when the document is JSON null), and -- for changes that drop   *)
(* a nil guard -- "UnguardedDeref" (never open on the unchanged tree; used by  *)
(* the sensitivity tests of the model).                                        *)
(***************************************************************************)
EXTENDS Naturals, TLC

CONSTANTS HasRaw,     \* the method declares the raw map (a before-validator exists or an after-validator needs it)
          HasAddl,    \* the struct has an AdditionalProperties field
          D           \* open deviations

VARIABLES pc, err, dest, rawNil
vars == <<pc, err, dest, rawNil>>

Init == pc = "start" /\ err = FALSE /\ dest = "prior" /\ rawNil \in BOOLEAN   \* rawNil: the document is JSON null

Fail == pc' = "done" /\ err' = TRUE /\ UNCHANGED <<dest, rawNil>>
Go(next) == pc' = next /\ UNCHANGED <<err, dest, rawNil>>
Panic == pc' = "panicked" /\ UNCHANGED <<err, dest, rawNil>>

RawDecode == pc = "start" /\ (IF HasRaw THEN (Go("before") \/ (~rawNil /\ Fail)) ELSE Go("plain"))
Before    == pc = "before" /\ (Go("plain") \/ (~rawNil /\ Fail))      \* `raw != nil &&` guards every required check
PlainDecode == pc = "plain" /\ (Go("after") \/ Fail)
After     == pc = "after" /\ (Go(IF HasAddl THEN "addl" ELSE "assign") \/ Fail
                              \/ ("UnguardedDeref" \in D /\ Panic))
AddlProps == pc = "addl" /\ (Go("assign") \/ Fail
                             \/ ("AddlNullPanics" \in D /\ rawNil /\ Panic))
Assign    == pc = "assign" /\ pc' = "done" /\ dest' = "new" /\ UNCHANGED <<err, rawNil>>
Done      == pc \in {"done", "panicked"} /\ UNCHANGED vars

Next == RawDecode \/ Before \/ PlainDecode \/ After \/ AddlProps \/ Assign \/ Done
Spec == Init /\ [][Next]_vars /\ WF_vars(Next)

Total == pc # "panicked"
AllOrNothing == [][dest' # dest => (pc = "assign" /\ ~err)]_vars
ErrMeansUntouched == (pc = "done" /\ err) => dest = "prior"
Terminates == <>(pc \in {"done", "panicked"})

\* the observable outcomes of a call: [err, panicked, changed]
Outcome == [err |-> err, panicked |-> pc = "panicked", changed |-> dest = "new"]
=============================================================================
