-------------------------------- MODULE CLI --------------------------------
(***************************************************************************)
(* PHASE MACHINE of one run of the command line tool (main.go, Run closure).  *)
(* One action per abort point / effect of the code:                           *)
(*   ParseFlags   cobra: unknown flag, malformed bool, ... => abort            *)
(*   CheckArgs    no arguments / no package name => abort                      *)
(*   BuildMaps    --schema-package/-output/-root-type without "=" => abort     *)
(*   DoFile(i)    load + parse + generate argument i (in order) => abort on     *)
(*                the first failure; NOTHING has been written at this point     *)
(*   Write(k)     after all files generated: one write per output, in Go map    *)
(*                order (nondeterministic): stdout for "-", else MkdirAll +      *)
(*                OpenFile(O_TRUNC) + Write; an I/O failure aborts half-way      *)
(*                (outside C18's antecedent, modelled for completeness)          *)
(*   Exit0                                                                      *)
(* A scenario (the constants) fixes the environment: status of the flags, of    *)
(* every argument (and of the one ungeneratable element injected into it), the   *)
(* output mode and whether output I/O fails.                                     *)
(* Deviations (D): the set Silent of (fault, position) pairs the tool accepts     *)
(* silently, Panics of pairs on which it panics, Hangs on which it never ends.    *)
(***************************************************************************)
EXTENDS Integers, Sequences, FiniteSets, TLC

CONSTANTS Scenarios,  \* set of [flags, args, outmode, iofails]:
                      \*   flags   "ok" | "noargs" | "nopackage" | "badmapping" | "unknownflag" | "badbool"
                      \*   args    sequence of [status |-> "ok" | "bad", fault |-> STRING, pos |-> STRING]
                      \*   outmode "stdout" | "file" | "perfile"
                      \*   iofails BOOLEAN: some write fails
          Silent, Panics, Hangs,  \* sets of <<fault, pos>> (deviations of the tree as it is)
          Either,                 \* faults on which the statement allows success as well as a clean failure
          RefCollapse             \* deviation (BOOLEAN): a definition that is a bare $ref is considered equal to an
                                  \* earlier file's same-named bare-$ref definition (cmputil.Opts ignores Ref), so
                                  \* it is never resolved: its fault goes unnoticed -- a HISTORY-dependent outcome

VARIABLES sc, phase, i, exit, stdout, stderr, written, cause
vars == <<sc, phase, i, exit, stdout, stderr, written, cause>>

Flags == sc.flags   Args == sc.args   OutMode == sc.outmode   IOFails == sc.iofails

NArgs == Len(Args)
Outputs == IF OutMode = "perfile" THEN 1..NArgs ELSE {1}     \* one output per schema id, or one shared

Init == /\ sc \in Scenarios
        /\ phase = "parseflags" /\ i = 1 /\ exit = -1 /\ stdout = FALSE /\ stderr = FALSE
        /\ written = {} /\ cause = "none"

Abort(c) == /\ phase' = "exit" /\ exit' = 1 /\ stderr' = TRUE /\ cause' = c
            /\ UNCHANGED <<sc, i, stdout, written>>

ParseFlags == /\ phase = "parseflags"
              /\ IF Flags \in {"unknownflag", "badbool"} THEN Abort("flag")
                 ELSE phase' = "checkargs" /\ UNCHANGED <<sc, i, exit, stdout, stderr, written, cause>>
CheckArgs  == /\ phase = "checkargs"
              /\ IF Flags \in {"noargs", "nopackage"} THEN Abort("flag")
                 ELSE phase' = "buildmaps" /\ UNCHANGED <<sc, i, exit, stdout, stderr, written, cause>>
BuildMaps  == /\ phase = "buildmaps"
              /\ IF Flags = "badmapping" THEN Abort("flag")
                 ELSE phase' = "dofile" /\ UNCHANGED <<sc, i, exit, stdout, stderr, written, cause>>

RefFaults == {"missingdef", "missingfile", "refhash", "refhashslash", "refdefsempty", "refother",
              "refdefsbare", "refdefinitionsbare", "refuppercase"}
Fails(a) == a.status = "bad" /\ <<a.fault, a.pos>> \notin Silent
DoFile == /\ phase = "dofile" /\ i <= NArgs
          /\ LET a == Args[i] IN
             IF a.status = "bad" /\ <<a.fault, a.pos>> \in Panics THEN
                  /\ phase' = "exit" /\ exit' = 2 /\ stderr' = TRUE /\ cause' = "panic"
                  /\ UNCHANGED <<sc, i, stdout, written>>
             ELSE IF a.status = "bad" /\ <<a.fault, a.pos>> \in Hangs THEN
                  phase' = "hung" /\ UNCHANGED <<sc, i, exit, stdout, stderr, written, cause>>
             ELSE IF /\ RefCollapse /\ a.status = "bad" /\ a.pos = "definition" /\ a.fault \in RefFaults
                     /\ \E j \in 1..(i - 1) : Args[j].pos = "definition" /\ Args[j].fault \in RefFaults THEN
                  i' = i + 1 /\ UNCHANGED <<sc, phase, exit, stdout, stderr, written, cause>>
             ELSE IF a.status = "bad" /\ a.fault \in Either THEN
                  \/ Abort("generate")
                  \/ i' = i + 1 /\ UNCHANGED <<sc, phase, exit, stdout, stderr, written, cause>>
             ELSE IF Fails(a) THEN Abort(IF a.fault \in {"missing", "isdir", "dangling"} THEN "load"
                                         ELSE IF a.pos = "file" THEN "parse" ELSE "generate")
             ELSE i' = i + 1 /\ UNCHANGED <<sc, phase, exit, stdout, stderr, written, cause>>
StartWrite == /\ phase = "dofile" /\ i > NArgs
              /\ phase' = "write" /\ UNCHANGED <<sc, i, exit, stdout, stderr, written, cause>>
Write == /\ phase = "write"
         /\ \E k \in Outputs \ written :
              \/ /\ written' = written \cup {k}
                 /\ stdout' = (stdout \/ OutMode = "stdout")
                 /\ UNCHANGED <<sc, phase, i, exit, stderr, cause>>
              \/ /\ IOFails /\ OutMode # "stdout"
                 /\ phase' = "exit" /\ exit' = 1 /\ stderr' = TRUE /\ cause' = "io"
                 /\ UNCHANGED <<sc, i, stdout, written>>
Exit0 == /\ phase = "write" /\ written = Outputs
         /\ phase' = "exit" /\ exit' = 0 /\ UNCHANGED <<sc, i, stdout, stderr, written, cause>>
Stutter == phase \in {"exit", "hung"} /\ UNCHANGED vars

Next == ParseFlags \/ CheckArgs \/ BuildMaps \/ DoFile \/ StartWrite \/ Write \/ Exit0 \/ Stutter
Spec == Init /\ [][Next]_vars /\ WF_vars(Next)

(* ---- C18 ---- *)
NoPanic     == exit # 2
Clean       == (exit = 1 /\ cause \in {"flag", "load", "parse", "generate"}) => (~stdout /\ written = {})
Loud        == exit \in {1, 2} => stderr
Complete    == exit = 0 => written = Outputs
NoHalfSuccess == exit = 0 => \A k \in 1..NArgs : Args[k].status = "ok" \/ Args[k].fault \in Either
Terminates  == <>(phase = "exit")
\* writes happen only after every argument was generated
WriteAfterAll == [][written' # written => i > NArgs]_vars
=============================================================================
