------------------------------ MODULE MC_C06 ------------------------------
(***************************************************************************)
(* C06 -- string length and pattern constraints are enforced exactly.        *)
(* Units: minLength x maxLength x pattern x position; documents: EVERY        *)
(* string over the five-character alphabet (1..4 UTF-8 bytes per character)  *)
(* up to length MaxStr, absent, null.                                         *)
(***************************************************************************)
EXTENDS StrImpl, Units, Json, SequencesExt

CONSTANTS UnitsFile, Devs, MaxStr

VARIABLES pos, pat, lens, fmtv  \* lens = <<minLength, maxLength>> or <<>> while unset; fmtv: a `format` the tool has no Go type for
vars == <<pos, pat, lens, fmtv>>

Off == [on |-> FALSE]
On(v) == [on |-> TRUE, v |-> v]
Field(k, o) == IF o.on THEN k :> o.v ELSE <<>>

MinLens == {Off, On(0), On(1), On(2)}
MaxLens == {Off, On(0), On(1), On(2), On(3)}
Pats    == {Off} \cup {On(p) : p \in PatIds \cup HostPatIds}
Host(pat_) == pat_.on /\ pat_.v \in HostPatIds

Strings == SetToSeq(UNION {[1..n -> CharIds] : n \in 0..MaxStr})
StrDocs == [i \in DOMAIN Strings |-> JStr(Strings[i])]
\* documents for the hostile pattern texts: matching and near-miss strings over the wider character set
HostStrings == << <<"qt", "a", "qt">>, <<"a", "bt", "b">>, <<"a", "b">>, <<"a", "sp">>, <<"a", "nl">>, <<"sp">>, <<"a", "b", "sp", "sp">>,
                  <<>>, <<"qt", "a">>, <<"a", "bt", "b", "b">>, <<"bt">>, <<"a", "pc", "b">>, <<"bs">>, <<"a", "us", "d1">>, <<"a", "e2">>,
                  <<"qt", "a", "qt", "nl">>, <<"a", "sp", "b">>, <<"sp", "b">>, <<"a", "tb">>, <<"a", "b", "sp", "b">>, <<"a", "tb", "sp">> >>
HostDocs == [i \in DOMAIN HostStrings |-> JStr(HostStrings[i])]

Unit(pos_, pat_, mn, mx) ==
  LET leaf == ("type" :> <<"string">>) @@ Field("minLength", mn) @@ Field("maxLength", mx) @@ Field("pattern", pat_)
              @@ (IF fmtv = "none" THEN <<>> ELSE "format" :> fmtv)     \* email / uuid: still a Go string, every check stays
      strs == IF Host(pat_) THEN HostStrings ELSE Strings
      docs == IF Host(pat_) THEN HostDocs ELSE StrDocs
      okv  == {i \in DOMAIN strs : StrOK(leaf, strs[i], {}) /\ StrOK(leaf, strs[i], Devs)}
      p    == IF pos_ = "optdefault" /\ okv = {} THEN "opt" ELSE pos_
      dflt == IF okv = {} THEN JNull ELSE docs[CHOOSE i \in okv : \A j \in okv : i <= j]
  IN PosUnit("C06", p, leaf, docs, dflt)

u == Unit(pos, pat, lens[1], lens[2])
Set == lens # <<>>

ImplAccepts(unit, d, D) == ImplPos(unit, d, LAMBDA v : ImplStrAccepts(Leaf(unit), v, D))

\* unit is bound once per state (an operator would be re-evaluated at every use)
Agree(unit, D) ==
  \A i \in DOMAIN unit.docs :
     LET r == DevVerdict(unit, unit.docs[i], D) IN
     r # Un => (ImplAccepts(unit, unit.docs[i], D) <=> r = Acc)

\* the intended design (no deviation) satisfies the property on every unit and document
DesignOK == Set => LET unit == u IN Agree(unit, {})
\* the two placements of the open deviations agree: switches inside the implementation-shaped model
\* and switches inside the reference semantics (JV.Valid) predict the same verdicts
AsIsOK   == Set => LET unit == u IN Agree(unit, Devs)

Init == /\ pos \in Positions /\ pat \in Pats /\ lens = <<>> /\ fmtv \in {"none", "email", "uuid"}
        /\ (fmtv # "none" => pos \in {"req", "nullopt", "defreq"} /\ pat \in {Off, On("p_a")})
Pick == /\ lens = <<>>
        /\ lens' \in IF Host(pat) THEN {<<Off, Off>>, <<On(1), On(3)>>} ELSE MinLens \X MaxLens
        /\ UNCHANGED <<pos, pat, fmtv>>
Next == Pick
Spec == Init /\ [][Next]_vars

Emit == Set => (UnitsFile = "" \/ LET unit == u IN PrintT("UNIT " \o ToJson(unit)))
=============================================================================
