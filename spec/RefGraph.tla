------------------------------ MODULE RefGraph ------------------------------
(***************************************************************************)
(* STATE MACHINE of the generator's walk over a graph of definitions that       *)
(* refer to each other (pkg/generator/schema_generator.go generateRootType,      *)
(* generateDeclaredType, generateReferencedType, detectCycle; output.go          *)
(* declsBySchema / declsByName).                                                  *)
(*                                                                          *)
(* The graph: definitions Defs; Edge[d] is the sequence of references inside       *)
(* definition d in the order the generator visits them (properties sorted by        *)
(* name), each [to |-> target definition, via |-> "prop" | "items"].                  *)
(*                                                                          *)
(* State: todo (definitions generateRootType still has to start, sorted),              *)
(* stack (frames [def, next]: the definitions being generated, innermost last),         *)
(* declared (definitions with an entry in declsBySchema -- registered BEFORE their       *)
(* body is generated, which is what makes the walk finite), emitted (how many             *)
(* type declarations each definition produced), inScope (detectCycle's set).               *)
(* Actions: Start (next definition of the root loop), Follow (next reference of the        *)
(* innermost frame: reuse the declaration if the target is declared, else descend),         *)
(* Leave (frame finished).                                                                  *)
(*                                                                          *)
(* C10 (recursion): the walk terminates for every graph; at the end every definition         *)
(* has exactly one declaration, shared by all its referrers; nothing stays in scope.          *)
(* Deviation "ForgetDeclared" (used only to show the invariants bite): the entry of a          *)
(* definition is not registered before its body is generated.                                  *)
(***************************************************************************)
EXTENDS Integers, Sequences, FiniteSets, TLC

CONSTANTS Defs, Graphs, Order, RD   \* Graphs: the set of graphs to explore; Order: Defs as a sorted sequence; RD: deviations of this model

VARIABLES Edge, todo, stack, declared, emitted, inScope, steps      \* Edge is chosen initially and never changes
gvars == <<Edge, todo, stack, declared, emitted, inScope, steps>>

GInit == /\ Edge \in Graphs /\ todo = Order /\ stack = <<>> /\ declared = {} /\ emitted = [d \in Defs |-> 0] /\ inScope = {} /\ steps = 0

Top == stack[Len(stack)]
Push(d) == /\ stack' = Append(stack, [def |-> d, next |-> 1])
           /\ declared' = IF "ForgetDeclared" \in RD THEN declared ELSE declared \cup {d}
           /\ emitted' = [emitted EXCEPT ![d] = @ + 1]

Start == /\ stack = <<>> /\ todo # <<>>
         /\ todo' = Tail(todo)
         /\ IF Head(todo) \in declared
            THEN UNCHANGED <<stack, declared, emitted>>
            ELSE Push(Head(todo))
         /\ UNCHANGED <<Edge, inScope>> /\ steps' = steps + 1

Follow == /\ stack # <<>> /\ Top.next <= Len(Edge[Top.def])
          /\ LET e == Edge[Top.def][Top.next]
                 adv == [stack EXCEPT ![Len(stack)].next = @ + 1] IN
             IF e.to \in declared
             THEN /\ stack' = adv /\ UNCHANGED <<declared, emitted, inScope>>       \* declsBySchema hit: named type reused
             ELSE /\ stack' = Append(adv, [def |-> e.to, next |-> 1])
                  /\ declared' = IF "ForgetDeclared" \in RD THEN declared ELSE declared \cup {e.to}
                  /\ emitted' = [emitted EXCEPT ![e.to] = @ + 1]
                  /\ inScope' = inScope \cup {<<Top.def, Top.next>>}
          /\ UNCHANGED <<Edge, todo>> /\ steps' = steps + 1

Leave == /\ stack # <<>> /\ Top.next > Len(Edge[Top.def])
         /\ stack' = SubSeq(stack, 1, Len(stack) - 1)
         \* the reference that led here (if any) leaves detectCycle's scope
         /\ inScope' = IF Len(stack) > 1
                       THEN inScope \ {<<stack[Len(stack) - 1].def, stack[Len(stack) - 1].next - 1>>}
                       ELSE inScope
         /\ UNCHANGED <<Edge, todo, declared, emitted>> /\ steps' = steps + 1

Finished == stack = <<>> /\ todo = <<>>
GNext == Start \/ Follow \/ Leave \/ (Finished /\ UNCHANGED gvars)
GSpec == GInit /\ [][GNext]_gvars /\ WF_gvars(Start \/ Follow \/ Leave)

\* ---- properties ----
Bound == 4 * (Cardinality(Defs) + 1) * (Cardinality(Defs) + 1)
Terminates   == <>Finished
StepsBounded == steps <= Bound                       \* a safety form of termination TLC can check as an invariant
OncePerDef   == \A d \in Defs : emitted[d] <= 1
AllDeclared  == Finished => \A d \in Defs : emitted[d] = 1
ScopeEmpty   == Finished => inScope = {}
=============================================================================
