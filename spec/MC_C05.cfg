SPECIFICATION Spec
CONSTANTS
  UnitsFile = "stdout"
  Devs = {}
INVARIANTS DesignOK AsIsOK Emit
CHECK_DEADLOCK FALSE
