------------------------------ MODULE ArrImpl ------------------------------
(***************************************************************************)
(* IMPLEMENTATION-SHAPED model of array length validation                    *)
(*   pkg/generator/schema_generator.go structFieldValidators,                *)
(*                                      `case *codegen.ArrayType:` loop      *)
(*   pkg/generator/validator.go        arrayValidator.generate               *)
(* The generator walks the directly nested inline arrays of a struct field   *)
(* and attaches one arrayValidator per depth.  Deviations at their sites:    *)
(*   "NestedArrayOuterLimits"  every depth is given f.SchemaType.MinItems /   *)
(*        MaxItems, i.e. the limits of the FIELD's (outermost) array, and a   *)
(*        validator exists at any depth only if the outermost has limits      *)
(*        (pinned by golden validation/minMaxItems)                           *)
(*   "DeclaredArrayNestedUnchecked"  a declared array type ($ref to an array  *)
(*        definition, a root array) checks its own limits in its unmarshaler   *)
(*        (fix 9e8f58a; before it nothing was checked), but its inner levels    *)
(*        are codegen.ArrayType VALUES, which the *ArrayType loop does not      *)
(*        descend into: no validator below depth 1                              *)
(*   "ZeroMaxIgnored"          MaxItems is a Go int: 0 means absent           *)
(***************************************************************************)
EXTENDS JV

RECURSIVE InlineDepth(_)
InlineDepth(s) == IF Main(s) = "array" /\ ~Has(s, "ref") /\ Has(s, "items")
                  THEN 1 + InlineDepth(s.items) ELSE 0
RECURSIVE Level(_, _)
Level(s, k) == IF k = 1 THEN s ELSE Level(s.items, k - 1)

GoMin(s) == IF Has(s, "minItems") THEN s.minItems ELSE 0
GoMax(s) == IF Has(s, "maxItems") THEN s.maxItems ELSE 0

\* the limits the validator at depth k is generated with
LimSrc(f, k, D) == IF "NestedArrayOuterLimits" \in D THEN f ELSE Level(f, k)
Attached(f, k, D) ==
  LET s == LimSrc(f, k, D) IN
  IF "ZeroMaxIgnored" \in D THEN GoMin(s) # 0 \/ GoMax(s) # 0 ELSE GoMin(s) # 0 \/ Has(s, "maxItems")

\* all array values at nesting depth k of document value v (v itself is depth 1)
RECURSIVE AtDepth(_, _)
AtDepth(v, k) == IF v.t # "arr" THEN {}
                 ELSE IF k = 1 THEN {v}
                 ELSE UNION {AtDepth(v.a[i], k - 1) : i \in DOMAIN v.a}

\* arrayValidator.generate at depth k: nested `for iN := range` loops, then
\*   if v != nil && len(v) < min   /   if len(v) > max
DepthRejects(f, k, v, D) ==
  LET s == LimSrc(f, k, D)
      maxChecked == IF "ZeroMaxIgnored" \in D THEN GoMax(s) # 0 ELSE Has(s, "maxItems")
  IN \E a \in AtDepth(v, k) : \/ GoMin(s) # 0 /\ Len(a.a) < GoMin(s)
                              \/ maxChecked /\ Len(a.a) > GoMax(s)

\* f: the field's schema (an inline array); v: the non-null decoded value
ImplArrLengthsAccept(f, v, D) ==
  \A k \in 1..InlineDepth(f) : ~(Attached(f, k, D) /\ DepthRejects(f, k, v, D))
\* f: the schema of a declared array type
ImplDeclArrLengthsAccept(f, v, D) ==
  \A k \in 1..(IF "DeclaredArrayNestedUnchecked" \in D THEN 1 ELSE InlineDepth(f)) :
     ~(Attached(f, k, D \ {"NestedArrayOuterLimits"}) /\ DepthRejects(f, k, v, D \ {"NestedArrayOuterLimits"}))
=============================================================================
