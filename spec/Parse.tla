------------------------------- MODULE Parse -------------------------------
(***************************************************************************)
(* IMPLEMENTATION-SHAPED model of schema parsing: how equivalent spellings    *)
(* are normalised (pkg/schemas/model.go Schema.UnmarshalJSON,                  *)
(* Type.UnmarshalJSON, TypeList.UnmarshalJSON; pkg/schemas/parse.go            *)
(* FromYAMLReader; pkg/generator/schema_generator.go extractRefNames).         *)
(* A TEXT-level node is a record of the keys as written:                       *)
(*   "$id" / "id", "$defs" / "definitions", "dependentSchemas" /               *)
(*   "dependencies", "type" as string or list, a sub-schema written as the      *)
(*   boolean true, "$ref" with either prefix in any letter case.                *)
(* ParseType / ParseSchema produce the in-memory normal form the generator      *)
(* works on; C13 == the normal form does not depend on the spelling.             *)
(***************************************************************************)
EXTENDS Integers, Sequences, FiniteSets, TLC

Has(r, k) == k \in DOMAIN r
Get(r, k, dflt) == IF Has(r, k) THEN r[k] ELSE dflt

\* TypeList.UnmarshalJSON: "t" | ["t"] | "" -> list
\* the type keyword as written: [s |-> "t"] (a string) or [l |-> <<"t">>] (a list)
ParseTypeList(v) == IF Has(v, "s") THEN (IF v.s = "" THEN <<>> ELSE <<v.s>>) ELSE v.l

\* extractRefNames: prefix match on the lower-cased fragment; the name keeps its case
ParseRef(r) ==            \* r = [prefix |-> "/$defs/" | "/definitions/" | "/$DEFS/" ..., name |-> n]; "#" is [prefix "", name ""]
  [name |-> r.name, self |-> r.prefix = ""]

RECURSIVE ParseType(_)
\* a sub-schema written as a boolean is the record [b |-> BOOLEAN]; {} is [empty |-> TRUE]
ParseSub(v) == IF Has(v, "b") THEN (IF v.b THEN [empty |-> TRUE] ELSE [not |-> [empty |-> TRUE]])   \* `true` == {}
               ELSE IF Has(v, "empty") THEN [empty |-> TRUE]
               ELSE ParseType(v)
ParseMap(m) == [k \in DOMAIN m |-> ParseSub(m[k])]

\* Type.UnmarshalJSON: current keys first, legacy keys only fill what is still nil
ParseType(t) ==
  LET defs == IF Has(t, "$defs") THEN t["$defs"] ELSE IF Has(t, "definitions") THEN t["definitions"] ELSE <<>>
      deps == IF Has(t, "dependentSchemas") THEN t["dependentSchemas"] ELSE IF Has(t, "dependencies") THEN t["dependencies"] ELSE <<>>
  IN [type  |-> ParseTypeList(Get(t, "type", [s |-> ""])),
      ref   |-> IF Has(t, "$ref") THEN ParseRef(t["$ref"]) ELSE [name |-> "", self |-> FALSE],
      \* text-valued keywords are taken as written (whatever characters they hold)
      text  |-> <<Get(t, "description", ""), Get(t, "pattern", ""), Get(t, "enum", <<>>)>>,
      props |-> IF Has(t, "properties") THEN ParseMap(t["properties"]) ELSE <<>>,
      items |-> IF Has(t, "items") THEN ParseSub(t["items"]) ELSE [absent |-> TRUE],
      addl  |-> IF Has(t, "additionalProperties") THEN ParseSub(t["additionalProperties"]) ELSE [absent |-> TRUE],
      defs  |-> ParseMap(defs),
      deps  |-> ParseMap(deps)]

\* Schema.UnmarshalJSON: $id, falling back to id when empty; $defs, falling back to definitions when nil
ParseSchema(s) ==
  [id   |-> IF Get(s, "$id", "") # "" THEN s["$id"] ELSE Get(s, "id", ""),
   root |-> ParseType(s)]
=============================================================================
