----------------------------- MODULE Trace_RT -----------------------------
(***************************************************************************)
(* Trace specification of the runtime family (C02-C09, C11, C19): checks     *)
(* OBSERVATIONS recorded from the real generator + real generated code       *)
(* against the specification.  One event per unit:                          *)
(*   [unit |-> <the unit exactly as TLC (or the random driver) emitted it>,  *)
(*    res  |-> << per document of unit.docs:                                 *)
(*                [err |-> BOOLEAN, panic |-> BOOLEAN,                        *)
(*                 val |-> re-marshalled destination as a JV document,       *)
(*                 unchanged |-> BOOLEAN] >>]                                 *)
(* TLC -- not the harness -- evaluates the reference semantics on every      *)
(* event and classifies it by the decision rule of DESIGN.md 5.3:            *)
(*   un        the property says nothing about this input                    *)
(*   ok        observation = reference                                       *)
(*   known     observation # reference, but it is exactly what the model     *)
(*             with the open deviations Devs predicts, and removing some     *)
(*             deviation x changes that prediction (x "explains" it)          *)
(*   violation anything else                                                 *)
(*   drift     (in addition to ok) observation # model-with-Devs             *)
(***************************************************************************)
EXTENDS IntSize, EnumImpl, Units, Json, SequencesExt

CONSTANTS ObsFile, Devs, Judge   \* Judge: which aspect is compared ("verdict", ...)

VARIABLES l, tally
vars == <<l, tally>>

Obs == ndJsonDeserialize(ObsFile)

RefV(e, i)     == Valid(UnitEnv(e.unit), e.unit.schema, e.unit.docs[i], {}, "decl", NoLim)
\* units generated with --min-sized-ints (C15): the as-is prediction is the implementation-shaped model of the type
\* selection and in-place bound removal (spec/IntSize.tla) inside the wrapper pipeline of spec/Units.tla
SizedUnit(un) == "opts" \in DOMAIN un /\ "minSizedInts" \in DOMAIN un.opts /\ un.opts.minSizedInts /\ un.prop = "C15"
ImplV(e, i, D) ==
  IF SizedUnit(e.unit) /\ e.unit.pos = "allofshared"
  THEN B3(ImplSharedPos(e.unit.docs[i], e.unit.defs[1].s.properties[1].s, TRUE, D))
  ELSE IF SizedUnit(e.unit)
  THEN B3(ImplPos(e.unit, e.unit.docs[i], LAMBDA v : ImplSizedAccepts(Leaf(e.unit), v, TRUE, D)))
  ELSE Valid(UnitEnv(e.unit), e.unit.schema, e.unit.docs[i], D, "decl", NoLim)
ObsV(r)        == IF r.err \/ r.panic THEN Rej ELSE Acc
\* Which open deviations account for a verdict that the model with all of Devs predicts: those that
\* are necessary (removing x changes the prediction) or sufficient (x alone departs from the
\* reference); if the disagreement is over-determined and needs a combination: Devs jointly.
Explains(e, i) ==
  LET cands == CandDevs(KeysOf(e.unit.schema) \cup EnvKeys(UnitEnv(e.unit)), Devs)
      ns == {x \in cands : \/ ImplV(e, i, Devs \ {x}) # ImplV(e, i, Devs)
                            \/ ImplV(e, i, {x}) # RefV(e, i)}
  IN IF ns # {} THEN ns ELSE cands

\* value fidelity (Judge = "value"): for a valid document that was accepted, the reflective dump must
\* hold the document (Decoded) and the re-marshalled JSON must reproduce it (Reproduced)
ValueOK(e, i, D) ==
  /\ e.res[i].val.t # "none" /\ Decoded(UnitEnv(e.unit), e.unit.schema, e.unit.docs[i], e.res[i].val, D)
  /\ e.res[i].out.t # "none" /\ Reproduced(UnitEnv(e.unit), e.unit.schema, e.unit.docs[i], e.res[i].out, D)

Class(e, i) ==
  LET ref == RefV(e, i)  o == ObsV(e.res[i])  impl == ImplV(e, i, Devs \ {"YamlIntInMixedEnum"}) IN
  IF Judge = "build" THEN "un"          \* C01 judges only that the program compiles
  ELSE IF ref = Un THEN "un"
  ELSE IF o = ref /\ Judge = "value" /\ ref = Acc /\ ~ValueOK(e, i, {}) THEN
       (IF ValueOK(e, i, Devs) THEN "known" ELSE "violation")
  ELSE IF o = ref THEN (IF impl = o THEN "ok" ELSE "drift")
  \* impl # ref here, and Valid(.., {}) = ref, so Devs accounts for the difference; where the model
  \* with Devs is itself undetermined ("un") it predicts nothing and either observation conforms
  ELSE IF o = impl \/ impl = Un THEN "known"
  ELSE "violation"

(* ---- C17 (Judge = "yaml"): res holds three results per document: JSON, YAML flow text, YAML block text ---- *)
YJ(e, i) == e.res[3 * i - 2]   Y1(e, i) == e.res[3 * i - 1]   Y2(e, i) == e.res[3 * i]
YamlSame(j, y) == ObsV(y) = ObsV(j) /\ (ObsV(j) = Acc => JEq(y.val, j.val))
\* in scope: valid documents and documents whose only faults are required / bound / length / pattern /
\* enum violations (every value has the JSON type its position declares)
YamlInScope(e, i) == RefV(e, i) # Un /\ TypeClean(UnitEnv(e.unit), e.unit.schema, e.unit.docs[i])
\* The YAML path is the as-is model without the deviations that exist only on the JSON path (encoding/json's
\* case-insensitive key matching; UnmarshalJSON being called with null) and with the YAML-only ones.
JsonOnly == {"CaseInsensitiveKeyBinding", "EnumNullDefault", "AddlNullPanics"}
YamlOnly == {"YamlIntInMixedEnum"}
JsonV(e, i) == ImplV(e, i, Devs \ YamlOnly)
YamlV(e, i) == ImplV(e, i, Devs \ JsonOnly)
HasKey(s, k) == k \in DOMAIN s
RECURSIVE MentionsFormat(_, _)
MentionsFormat(s, F) ==
  \/ (HasKey(s, "format") /\ s.format \in F)
  \/ (HasKey(s, "items") /\ MentionsFormat(s.items, F))
  \/ (HasKey(s, "properties") /\ \E k \in DOMAIN s.properties : MentionsFormat(s.properties[k].s, F))
UnitMentionsFormat(e, F) == MentionsFormat(e.unit.schema, F) \/ \E k \in DOMAIN e.unit.defs : MentionsFormat(e.unit.defs[k].s, F)
RECURSIVE DocHasNullElem(_)
DocHasNullElem(d) ==
  CASE d.t = "arr" -> \E k \in DOMAIN d.a : d.a[k].t = "null" \/ DocHasNullElem(d.a[k])
    [] d.t = "obj" -> \E k \in DOMAIN d.o : DocHasNullElem(d.o[k].v)
    [] OTHER -> FALSE
YamlClass(e, i) ==
  IF ~YamlInScope(e, i) THEN "un"
  ELSE IF YamlSame(YJ(e, i), Y1(e, i)) /\ YamlSame(YJ(e, i), Y2(e, i)) THEN "ok"
  \* exact prediction of a difference by the two as-is models (verdicts; where both accept, the decoded
  \* values may differ only if a JSON-only or YAML-only deviation applies to this document)
  ELSE IF /\ JsonV(e, i) # YamlV(e, i) \/ (\E x \in (JsonOnly \cup YamlOnly) \cap Devs : ImplV(e, i, Devs \ {x}) # ImplV(e, i, Devs))
             \/ (ObsV(YJ(e, i)) = Acc /\ ObsV(Y1(e, i)) = Acc /\ ObsV(Y2(e, i)) = Acc /\ "CaseInsensitiveKeyBinding" \in Devs
                 /\ \E k \in ObjKeys(e.unit.docs[i]) : FoldsTo(k) # k)
          /\ (JsonV(e, i) = Un \/ ObsV(YJ(e, i)) = JsonV(e, i))
          /\ (YamlV(e, i) = Un \/ (ObsV(Y1(e, i)) = YamlV(e, i) /\ ObsV(Y2(e, i)) = YamlV(e, i)))
       THEN "known"
  \* types.SerializableDate / SerializableTime have no YAML unmarshalling: the YAML path rejects valid values
  ELSE IF /\ "YamlFormatTypesUnsupported" \in Devs /\ UnitMentionsFormat(e, {"date", "time"})
          /\ ObsV(YJ(e, i)) = RefV(e, i) /\ ObsV(Y1(e, i)) = Rej /\ ObsV(Y2(e, i)) = Rej THEN "known"
  \* yaml.v3 skips null elements when decoding a sequence into a slice of non-pointer elements
  ELSE IF /\ "YamlNullArrayElemDropped" \in Devs /\ DocHasNullElem(e.unit.docs[i])
          /\ ObsV(YJ(e, i)) = Acc /\ ObsV(Y1(e, i)) = Acc /\ ObsV(Y2(e, i)) = Acc THEN "known"
  ELSE "violation"
YamlReport(n, e, i, c) ==
  PrintT("REPORT " \o ToJson([l |-> n, i |-> i, class |-> c, kind |-> "yaml", devs |-> <<"YamlFormatTypesUnsupported">>,
                             ref |-> ObsV(YJ(e, i)), obs |-> ObsV(Y1(e, i)) \o "/" \o ObsV(Y2(e, i)), impl |-> "-"]))

Report(n, e, i, c) ==
  PrintT("REPORT " \o ToJson([l |-> n, i |-> i, class |-> c,
                             kind |-> IF ObsV(e.res[i]) = RefV(e, i) THEN "value" ELSE "verdict",
                             devs |-> IF ObsV(e.res[i]) = RefV(e, i)
                                      THEN SetToSeq({x \in Devs : ValueOK(e, i, {x})})    \* value disagreement
                                      ELSE SetToSeq(Explains(e, i)),
                             ref |-> RefV(e, i), obs |-> ObsV(e.res[i]), impl |-> ImplV(e, i, Devs)]))

(* ---- C15: the Go type chosen under --min-sized-ints (read from the compiled program by reflection) ---- *)
IntTypes == {"int8", "int16", "int32", "int64", "uint8", "uint16", "uint32", "uint64"}
TyWidth(ty) == CASE ty \in {"int8", "uint8"} -> 8 [] ty \in {"int16", "uint16"} -> 16
               [] ty \in {"int32", "uint32"} -> 32 [] OTHER -> 64
StripPtr(g) == IF Len(g) > 0 /\ SubSeq(g, 1, 1) = "*" THEN SubSeq(g, 2, Len(g)) ELSE g
XLeaf(e) == IF e.unit.defs = <<>> THEN e.unit.schema.properties[1].s ELSE e.unit.defs[1].s
\* the admitted interval by the reference semantics (inclusive ends; Nil = unbounded)
RefIval(s) ==
  LET n == Normalize(PMin(s), PMax(s), PEx(s, "exclusiveMinimum"), PEx(s, "exclusiveMaximum"), {})
  IN [lo |-> IF n.minEx /\ n.min.on THEN Ptr(Plus(n.min.v, 1)) ELSE n.min,
      hi |-> IF n.maxEx /\ n.max.on THEN Ptr(Plus(n.max.v, -1)) ELSE n.max]
Holds(ty, iv) ==
  /\ IF iv.lo.on THEN NumLE(TyMin(ty), iv.lo.v) ELSE ty = "int64"
  /\ IF iv.hi.on THEN NumLE(iv.hi.v, TyMax(ty)) ELSE ty \in {"int64", "uint64"}
SizedTypeClass(e) ==
  LET s == XLeaf(e)  iv == RefIval(s)  g == StripPtr(e.gotype)
      cands == {ty \in IntTypes : Holds(ty, iv)}
      pred(D) == MinIntType(PMin(s), PMax(s), PEx(s, "exclusiveMinimum"), PEx(s, "exclusiveMaximum"), D).ty
  IN IF iv.lo.on /\ iv.hi.on /\ NumLT(iv.hi.v, iv.lo.v) THEN "un"        \* nothing is admitted
     ELSE IF cands = {} THEN "un"                                          \* beyond 64 bits
     ELSE IF g \in cands /\ \A c \in cands : TyWidth(g) <= TyWidth(c) THEN "ok"
     ELSE IF g = pred(Devs) /\ pred({}) # g THEN "known"
     ELSE "violation"
IsSized(e) == "opts" \in DOMAIN e.unit /\ "minSizedInts" \in DOMAIN e.unit.opts /\ e.unit.opts.minSizedInts
              /\ e.unit.prop = "C15" /\ Judge # "build" /\ e.unit.pos # "allofshared"
TypeReport(n, e, c) ==
  PrintT("REPORT " \o ToJson([l |-> n, i |-> 0, class |-> c, devs |-> <<"Float64Bounds">>, kind |-> "gotype",
                             ref |-> "narrowest type holding the admitted interval", obs |-> e.gotype, impl |-> "-"]))

(* ---- C08: one typed constant per listed string of a string enum (read from the emitted source) ---- *)
EnumOf(un) == IF un.defs # <<>> THEN un.defs[1].s
              ELSE IF un.use = "items" THEN un.schema.properties[1].s.items ELSE un.schema.properties[1].s
HasConsts(e) == e.unit.prop = "C08" /\ "consts" \in DOMAIN e
ConstClass(e) ==
  LET want == EnumConsts(EnumOf(e.unit))
      got  == {e.consts[i] : i \in DOMAIN e.consts}
  IN IF got = want /\ Len(e.consts) = Cardinality(want) THEN "ok" ELSE "violation"
ConstReport(n, e, c) ==
  PrintT("REPORT " \o ToJson([l |-> n, i |-> 0, class |-> c, devs |-> <<>>, kind |-> "consts",
                             ref |-> "one typed constant per listed string", obs |-> ToJson(e.consts), impl |-> "-"]))

(* ---- programs that do not compile (C09: "the default literal always has the Go type of the field") ---- *)
\* e.built = FALSE: the real generator succeeded but the Go compiler rejected the emitted package.  The
\* unit's field nobuild (computed by the MC module) lists the deviations that predict exactly that.
\* e.fmtok = FALSE: the generator could not format the file, or gofmt would change it
NotBuilt(e) == ("built" \in DOMAIN e /\ ~e.built) \/ ("fmtok" \in DOMAIN e /\ ~e.fmtok)
NoBuild(e) == IF "nobuild" \in DOMAIN e.unit THEN e.unit.nobuild ELSE <<>>
BuildClass(e) == IF \E i \in DOMAIN NoBuild(e) : NoBuild(e)[i] \in Devs THEN "known" ELSE "violation"
BuildReport(n, e, c) ==
  PrintT("REPORT " \o ToJson([l |-> n, i |-> 0, class |-> c, devs |-> NoBuild(e), kind |-> "build",
                             ref |-> "emitted package compiles", obs |-> "does not compile", impl |-> "-"]))

Count(cls, c) == Cardinality({i \in DOMAIN cls : cls[i] = c})

Step(n, e, t) ==
  IF NotBuilt(e) THEN
     LET c == BuildClass(e) IN
     IF BuildReport(n, e, c)
     THEN [t EXCEPT !.known = @ + (IF c = "known" THEN 1 ELSE 0), !.viol = @ + (IF c = "violation" THEN 1 ELSE 0)]
     ELSE t
  ELSE IF Judge = "yaml" THEN
     LET cls == [i \in 1..(Len(e.res) \div 3) |-> YamlClass(e, i)] IN
     IF \A i \in DOMAIN cls : cls[i] \in {"ok", "un"} \/ YamlReport(n, e, i, cls[i])
     THEN [ok |-> t.ok + Count(cls, "ok"), un |-> t.un + Count(cls, "un"), known |-> t.known + Count(cls, "known"),
           viol |-> t.viol + Count(cls, "violation"), drift |-> t.drift,
           acc |-> t.acc + Cardinality({i \in DOMAIN cls : cls[i] # "un" /\ RefV(e, i) = Acc}),
           rej |-> t.rej + Cardinality({i \in DOMAIN cls : cls[i] # "un" /\ RefV(e, i) = Rej})]
     ELSE t
  ELSE
  LET cls0 == [i \in DOMAIN e.res |-> Class(e, i)]
      tc   == IF IsSized(e) THEN SizedTypeClass(e) ELSE "none"
      cc   == IF HasConsts(e) THEN ConstClass(e) ELSE "none"
      cls  == cls0 \o (IF tc = "none" THEN <<>> ELSE <<tc>>) \o (IF cc = "none" THEN <<>> ELSE <<cc>>)
  IN
  IF /\ \A i \in DOMAIN cls0 : cls0[i] \in {"ok", "un"} \/ Report(n, e, i, cls0[i])
     /\ tc \in {"none", "ok", "un"} \/ TypeReport(n, e, tc)
     /\ cc \in {"none", "ok"} \/ ConstReport(n, e, cc)
  THEN [ok |-> t.ok + Count(cls, "ok") + Count(cls, "drift"), un |-> t.un + Count(cls, "un"),
        known |-> t.known + Count(cls, "known"), viol |-> t.viol + Count(cls, "violation"),
        drift |-> t.drift + Count(cls, "drift"),
        acc |-> t.acc + Cardinality({i \in DOMAIN cls0 : RefV(e, i) = Acc}),
        rej |-> t.rej + Cardinality({i \in DOMAIN cls0 : RefV(e, i) = Rej})]
  ELSE t

Init == l = 0 /\ tally = [ok |-> 0, un |-> 0, known |-> 0, viol |-> 0, drift |-> 0, acc |-> 0, rej |-> 0]
Next == /\ l < Len(Obs)
        /\ l' = l + 1
        /\ tally' = Step(l + 1, Obs[l + 1], tally)
Spec == Init /\ [][Next]_vars

Done == l = Len(Obs) => PrintT("TALLY " \o ToJson(tally))
\* every event was consumed: one state per event plus the initial state
Accepted == TLCGet("stats").diameter = Len(Obs) + 1
=============================================================================
