----------------------------- MODULE Trace_RT -----------------------------
(***************************************************************************)
(* Trace specification of the runtime family (C02-C09, C11, C19): checks     *)
(* OBSERVATIONS recorded from the real generator + real generated code       *)
(* against the specification.  One event per unit:                          *)
(*   [unit |-> <the unit exactly as TLC (or the random driver) emitted it>,  *)
(*    res  |-> << per document of unit.docs:                                 *)
(*                [err |-> BOOLEAN, panic |-> BOOLEAN,                        *)
(*                 val |-> re-marshalled destination as a JV document,       *)
(*                 unchanged |-> BOOLEAN] >>]                                 *)
(* TLC -- not the harness -- evaluates the reference semantics on every      *)
(* event and classifies it by the decision rule of DESIGN.md 5.3:            *)
(*   un        the property says nothing about this input                    *)
(*   ok        observation = reference                                       *)
(*   known     observation # reference, but it is exactly what the model     *)
(*             with the open deviations Devs predicts, and removing some     *)
(*             deviation x changes that prediction (x "explains" it)          *)
(*   violation anything else                                                 *)
(*   drift     (in addition to ok) observation # model-with-Devs             *)
(***************************************************************************)
EXTENDS JV, Json, SequencesExt

CONSTANTS ObsFile, Devs, Judge   \* Judge: which aspect is compared ("verdict", ...)

VARIABLES l, tally
vars == <<l, tally>>

Obs == ndJsonDeserialize(ObsFile)

RefV(e, i)     == Valid(e.unit.defs, e.unit.schema, e.unit.docs[i], {}, "decl", NoLim)
ImplV(e, i, D) == Valid(e.unit.defs, e.unit.schema, e.unit.docs[i], D, "decl", NoLim)
ObsV(r)        == IF r.err \/ r.panic THEN Rej ELSE Acc
\* Which open deviations account for a disagreement that the model with all of Devs predicts: those
\* that are necessary (removing x changes the prediction) or sufficient (x alone departs from the
\* reference); if the disagreement is over-determined or needs a combination, every deviation that
\* changes the prediction in some context.
Explains(e, i) ==
  LET ns == {x \in Devs : \/ ImplV(e, i, Devs \ {x}) # ImplV(e, i, Devs)
                           \/ ImplV(e, i, {x}) # RefV(e, i)}
  IN IF ns # {} THEN ns
     ELSE {x \in Devs : \E S \in SUBSET (Devs \ {x}) : ImplV(e, i, S \cup {x}) # ImplV(e, i, S)}

Class(e, i) ==
  LET ref == RefV(e, i)  o == ObsV(e.res[i])  impl == ImplV(e, i, Devs) IN
  IF ref = Un THEN "un"
  ELSE IF o = ref THEN (IF impl = o THEN "ok" ELSE "drift")
  \* impl # ref here, and Valid(.., {}) = ref, so Devs accounts for the difference; where the model
  \* with Devs is itself undetermined ("un") it predicts nothing and either observation conforms
  ELSE IF o = impl \/ impl = Un THEN "known"
  ELSE "violation"

Report(n, e, i, c) ==
  PrintT("REPORT " \o ToJson([l |-> n, i |-> i, class |-> c,
                             devs |-> SetToSeq(Explains(e, i)),
                             ref |-> RefV(e, i), obs |-> ObsV(e.res[i]), impl |-> ImplV(e, i, Devs)]))

Count(cls, c) == Cardinality({i \in DOMAIN cls : cls[i] = c})

Step(n, e, t) ==
  LET cls == [i \in DOMAIN e.res |-> Class(e, i)] IN
  IF \A i \in DOMAIN cls : cls[i] \in {"ok", "un"} \/ Report(n, e, i, cls[i])
  THEN [ok |-> t.ok + Count(cls, "ok") + Count(cls, "drift"), un |-> t.un + Count(cls, "un"),
        known |-> t.known + Count(cls, "known"), viol |-> t.viol + Count(cls, "violation"),
        drift |-> t.drift + Count(cls, "drift"),
        acc |-> t.acc + Cardinality({i \in DOMAIN cls : RefV(e, i) = Acc}),
        rej |-> t.rej + Cardinality({i \in DOMAIN cls : RefV(e, i) = Rej})]
  ELSE t

Init == l = 0 /\ tally = [ok |-> 0, un |-> 0, known |-> 0, viol |-> 0, drift |-> 0, acc |-> 0, rej |-> 0]
Next == /\ l < Len(Obs)
        /\ l' = l + 1
        /\ tally' = Step(l + 1, Obs[l + 1], tally)
Spec == Init /\ [][Next]_vars

Done == l = Len(Obs) => PrintT("TALLY " \o ToJson(tally))
\* every event was consumed: one state per event plus the initial state
Accepted == TLCGet("stats").diameter = Len(Obs) + 1
=============================================================================
