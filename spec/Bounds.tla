------------------------------ MODULE Bounds ------------------------------
(***************************************************************************)
(* IMPLEMENTATION-SHAPED model of the numeric validator:                    *)
(*   pkg/mathutils/utils.go        NormalizeBounds      -> Normalize        *)
(*   pkg/generator/validator.go    numericValidator.generate / genBoundary  *)
(*                                                       -> NumCheck        *)
(*   pkg/codegen/utils.go          getMinIntType, adjustFor(Un)SignedBounds,*)
(*                                 in-place removal in                      *)
(*                                 PrimitiveTypeFromJSONSchemaType          *)
(*                                                       -> MinIntType      *)
(* One operator per Go function, one IF per Go branch, so that a TLC         *)
(* counterexample points at a line of the code.  Numbers are the abstract   *)
(* numerals of JV (quarters,   or landmarks for the sized-int analysis).    *)
(* Go pointers are [on |-> FALSE] / [on |-> TRUE, v |-> numeral].            *)
(*                                                                          *)
(* Deviation switches (members of D) placed at the defect's site:            *)
(*   "TieKeepsInclusive"      NormalizeBounds used > / < so an inclusive     *)
(*                            bound survived a tie with the exclusive one    *)
(*                            (fixed in /repo by ee8f4ce)                     *)
(*   "RemoveCrossedExclusive" removeMin cleared exclusiveMaximum and         *)
(*                            removeMax cleared exclusiveMinimum             *)
(*                            (fixed in /repo by 1f591fd)                     *)
(***************************************************************************)
EXTENDS JV

Nil == [on |-> FALSE]
Ptr(v) == [on |-> TRUE, v |-> v]

\* The four pointers as the generator sees them on a schemas.Type
PMin(s)  == IF Has(s, "minimum") THEN Ptr(s.minimum) ELSE Nil
PMax(s)  == IF Has(s, "maximum") THEN Ptr(s.maximum) ELSE Nil
\* exclusive*: *any holding bool or float64:  [on, k |-> "b"/"n", b / v]
PEx(s, key) == IF ~Has(s, key) THEN [on |-> FALSE]
               ELSE IF s[key].k = "b" THEN [on |-> TRUE, k |-> "b", b |-> s[key].b]
               ELSE [on |-> TRUE, k |-> "n", v |-> s[key].h]

\* NormalizeBounds(minimum, maximum, exclusiveMinimum, exclusiveMaximum)
\*   -> [min, max : pointer, minEx, maxEx : BOOLEAN]
NormalizeSide(bound, excl, tighter(_, _), tieOrTighter(_, _), D) ==
  LET r1 == IF excl.on THEN
              IF excl.k = "b" THEN [p |-> bound, ex |-> excl.b]
              ELSE \* float64 form
                IF ~bound.on
                   \/ (IF "TieKeepsInclusive" \in D THEN tighter(excl.v, bound.v)
                                                   ELSE tieOrTighter(excl.v, bound.v))
                THEN [p |-> Ptr(excl.v), ex |-> TRUE]
                ELSE [p |-> bound, ex |-> FALSE]
            ELSE [p |-> bound, ex |-> FALSE]
  IN \* "if minimum != nil && minBound == nil" repair branch (unreachable, kept for fidelity)
     IF bound.on /\ ~r1.p.on THEN [p |-> bound, ex |-> FALSE] ELSE r1

Normalize(min, max, emin, emax, D) ==
  LET lo == NormalizeSide(min, emin, LAMBDA v, m : NumLT(m, v), LAMBDA v, m : NumLE(m, v), D)
      hi == NormalizeSide(max, emax, LAMBDA v, m : NumLT(v, m), LAMBDA v, m : NumLE(v, m), D)
  IN [min |-> lo.p, max |-> hi.p, minEx |-> lo.ex, maxEx |-> hi.ex]

\* genBoundary: emits  if <boundary> <comp> <value> { return error }
\*   upper: sign "<"  : exclusive ->  b <= x  rejects ; inclusive -> b < x rejects
\*   lower: sign ">"  : exclusive ->  b >= x  rejects ; inclusive -> b > x rejects
\* valueOf converts the boundary with int64() for integer fields.  A fractional boundary is first rounded into the
\* range and made inclusive (floor for an upper bound, ceil for a lower one; fix a9f0e7c).  Before that fix int64()
\* truncated it toward zero and the exclusiveness was kept -- deviation "IntBoundTruncated" (minimum 1.5 on an
\* integer was checked as 1 > x, so 1 was accepted).
TruncInt(v) == IF v.t # "num" THEN v
               ELSE IF v.h >= 0 THEN JNum((v.h \div U) * U) ELSE JNum(-(((-v.h) \div U) * U))
FloorInt(v) == JNum((v.h \div U) * U)                 \* \div rounds toward minus infinity
CeilInt(v)  == JNum(-(((-v.h) \div U) * U))
BoundaryRejects(p, ex, x, upper, isInt, D) ==
  LET frac == isInt /\ p.on /\ p.v.t = "num" /\ p.v.h % U # 0
      old  == "IntBoundTruncated" \in D
      b0 == IF ~frac THEN p.v ELSE IF old THEN TruncInt(p.v) ELSE IF upper THEN FloorInt(p.v) ELSE CeilInt(p.v)
      ex1 == IF frac /\ ~old THEN FALSE ELSE ex
      b  == IF isInt /\ p.on THEN GoBound(b0, D) ELSE b0     \* int64(float64 constant): deviation Float64Bounds
  IN
  /\ p.on
  /\ IF upper THEN (IF ex1 THEN NumLE(b, x) ELSE NumLT(b, x))
              ELSE (IF ex1 THEN NumLE(x, b) ELSE NumLT(x, b))

\* numericValidator.generate, evaluated on a non-nil value x.
\* (multipleOf: `x % m != 0` for ints, `math.Abs(math.Mod(x, m)) > 1e-10` for floats: exact on halves)
NumCheckRejects(min, max, emin, emax, mult, x, isInt, D) ==
  LET n == Normalize(min, max, emin, emax, D) IN
  \/ (mult.on /\ x.t = "num" /\ x.h % mult.v.h # 0)
  \/ BoundaryRejects(n.max, n.maxEx, x, TRUE, isInt, D)
  \/ BoundaryRejects(n.min, n.minEx, x, FALSE, isInt, D)

\* structFieldValidators: a numericValidator is attached iff one of the five pointers is non-nil
HasNumValidator(min, max, emin, emax, mult) == min.on \/ max.on \/ emin.on \/ emax.on \/ mult.on

ImplNumAccepts(s, x, D) ==
  LET mult == IF Has(s, "multipleOf") THEN Ptr(JNum(s.multipleOf)) ELSE Nil IN
  ~(HasNumValidator(PMin(s), PMax(s), PEx(s, "exclusiveMinimum"), PEx(s, "exclusiveMaximum"), mult)
    /\ NumCheckRejects(PMin(s), PMax(s), PEx(s, "exclusiveMinimum"), PEx(s, "exclusiveMaximum"), mult, x,
                       Main(s) = "integer", D))

=============================================================================
