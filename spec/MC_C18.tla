------------------------------- MODULE MC_C18 -------------------------------
(***************************************************************************)
(* C18 -- the tool fails loudly and cleanly.  Scenario space for the CLI       *)
(* phase machine (spec/CLI.tla): flag status x output mode x 1..3 arguments,    *)
(* each valid or carrying ONE fault: a file-level fault (missing, directory,     *)
(* dangling symlink, empty, truncated, garbage, BOM, non-object JSON, keyword    *)
(* of the wrong JSON type, invalid YAML) or an ungeneratable element of one of    *)
(* 12 kinds injected at one of 9 positions (root property, nested property,       *)
(* array item, definition, inside an allOf/anyOf branch, as the branch itself, referenced file).           *)
(* TLC checks NoPanic, Clean, Loud, Complete, NoHalfSuccess, WriteAfterAll and     *)
(* Terminates on the design and prints the terminal outcome of every scenario:     *)
(* the expectation the real runs are judged against (Trace_C18).                    *)
(***************************************************************************)
EXTENDS CLI, Json

CONSTANTS Devs, Tier, Tag

FileFaults == {"missing", "isdir", "dangling", "empty", "truncated", "garbage", "bom", "jsonnull", "jsonarray",
               "jsonstring", "jsonnumber", "typenum", "propsnum", "badyaml"}
\* "unknowntypefmt" / "unknowntypekw": the unknown type name next to keywords that select a Go type or a validator for
\* KNOWN types (a string format; bounds and a default): the element stays ungeneratable
ElemFaults == {"unknowntype", "unknowntypefmt", "unknowntypekw", "missingdef", "missingfile", "refhash", "refhashslash", "refdefsempty", "refother",
               "refdefsbare", "refdefinitionsbare", "refuppercase",
               "emptyenum", "nonprimenum", "typednonprimenum", "intenumstr", "multiaddl", "defaultemptykey"}
Positions  == {"property", "nested", "item", "definition", "allof", "anyof", "allofbranch", "anyofbranch", "reffile"}
\* "#" is the document root (success is legitimate); a default object with the key "" is odd but not one of
\* the ungeneratable elements the statement lists: success or a clean failure, never a crash
\* "badgotype": a goJSONSchema type that is not a Go type -- the schema generates, the emitted text is not valid Go
\* (C01's business); C18 only demands success with complete output or a clean failure, never files left by a failed run
\* "selfallof" / "selfanyof" / "recallof": an allOf / anyOf branch that refers back to the schema it is part of (a
\* definition listing itself; a property that wraps a reference to its own definition in an allOf): not one of the
\* ungeneratable elements of the statement -- success or a clean failure, never a hang or a crash
EitherFaults == {"refhash", "refhashslash", "refdefsempty", "defaultemptykey", "badgotype", "selfallof", "selfanyof", "recallof"}

OkArg == [status |-> "ok", fault |-> "", pos |-> ""]
BadArgs == {[status |-> "bad", fault |-> f, pos |-> "file"] : f \in FileFaults}
           \cup {[status |-> "bad", fault |-> f, pos |-> p] : f \in ElemFaults, p \in Positions}
           \cup {[status |-> "bad", fault |-> "arraynoitems", pos |-> "definition"]}
           \* the allOf branch "$ref": "#/$defs/Br" of a document that lacks Br, while the other documents of the run
           \* define it under the same reference text
           \cup {[status |-> "bad", fault |-> "droppeddef", pos |-> "allofbranch"]}
           \cup {[status |-> "bad", fault |-> "badgotype", pos |-> p] : p \in {"property", "definition"}}
           \* a reference to a whole document that has no root schema ({} or only $id / $defs): nothing to generate
           \cup {[status |-> "bad", fault |-> f, pos |-> "reffile"] : f \in {"norootempty", "norootdefsonly"}}
           \* a JSON null where a schema is expected
           \cup {[status |-> "bad", fault |-> "nullschema", pos |-> p] : p \in {"property", "nested", "definition", "allofbranch", "anyofbranch", "reffile"}}
           \cup {[status |-> "bad", fault |-> f, pos |-> "definition"] : f \in {"selfallof", "selfanyof", "recallof"}}
ArgChoices == {OkArg} \cup BadArgs

ArgLists ==
  {<<a>> : a \in ArgChoices}
  \cup {<<a, b>> : a \in ArgChoices, b \in ArgChoices}
  \cup (IF Tier = "thorough"
        THEN {<<a, OkArg, b>> : a \in ArgChoices, b \in {OkArg} \cup {x \in BadArgs : x.pos \in {"file", "property"}}}
        ELSE {})
\* quick: at most one bad argument among two
QuickOK(l) == Tier = "thorough" \/ Len(l) = 1 \/ Cardinality({k \in DOMAIN l : l[k].status = "bad"}) <= 1

ScenariosDef ==
  {[flags |-> f, args |-> <<OkArg>>, outmode |-> m, iofails |-> FALSE] :
      f \in {"noargs", "nopackage", "badmapping", "unknownflag", "badbool"}, m \in {"stdout", "file", "perfile"}}
  \cup {[flags |-> "ok", args |-> l, outmode |-> m, iofails |-> FALSE] :
      l \in {x \in ArgLists : QuickOK(x)}, m \in {"stdout", "file", "perfile"}}

\* deviations of the tree as it is, by name (known_findings.json)
SilentDef == (IF "SilentBadAllOfBranch" \in Devs THEN {<<"unknowntype", "allofbranch">>, <<"unknowntypefmt", "allofbranch">>, <<"unknowntypekw", "allofbranch">>, <<"emptyenum", "allofbranch">>} ELSE {})
PanicsDef == (IF "RefHashPanics" \in Devs THEN {<<"refhash", "property">>, <<"refhash", "nested">>} ELSE {})
             \cup (IF "DefaultEmptyKeyPanics" \in Devs THEN {<<"defaultemptykey", p>> : p \in Positions} ELSE {})
HangsDef  == {}
RefCollapseDef == "SameNameRefDefsCollapse" \in Devs

EmitOutcome == phase \in {"exit", "hung"} =>
  PrintT("OUTCOME " \o ToJson([tag |-> Tag, sc |-> sc, exit |-> IF phase = "hung" THEN 99 ELSE exit,
                              stdout |-> stdout, stderr |-> stderr, nwritten |-> Cardinality(written), cause |-> cause]))
=============================================================================
