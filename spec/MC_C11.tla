------------------------------ MODULE MC_C11 ------------------------------
(***************************************************************************)
(* C11 -- allOf is conjunction and anyOf is disjunction for object schemas.   *)
(* Units: every ordered list of 1..3 distinct branches out of eight branch     *)
(* templates (disjoint and overlapping property sets; the same keyword or a    *)
(* different keyword on an overlapping property; a conflicting type; a          *)
(* required-only branch; a branch without any validator) x {allOf, anyOf} x     *)
(* {all inline, all by $ref, first by $ref}.  Documents: every assignment of     *)
(* absent / several integers / a wrong-typed value to p, q, r (84 documents),    *)
(* so that every subset of the branches is satisfied by some document.           *)
(***************************************************************************)
EXTENDS ObjImpl, Json, SequencesExt

CONSTANTS UnitsFile, Devs

VARIABLES comb, form, lst          \* lst = <<0>> while unset
vars == <<comb, form, lst>>

Int_ == [type |-> <<"integer">>]
O(props, r) == ("type" :> <<"object">>) @@ ("properties" :> props) @@ (IF r = <<>> THEN <<>> ELSE "required" :> r)
Branches == <<
  O(<<[k |-> "p", s |-> Int_ @@ ("minimum" :> JNum(8))]>>, <<"p">>),                                   \* A  p >= 2
  O(<<[k |-> "q", s |-> [type |-> <<"string">>, maxLength |-> 1]]>>, <<"q">>),                         \* B  q short
  O(<<[k |-> "p", s |-> Int_ @@ ("maximum" :> JNum(16))], [k |-> "r", s |-> [type |-> <<"boolean">>]]>>, <<>>),  \* C  p <= 4
  O(<<[k |-> "p", s |-> Int_ @@ ("minimum" :> JNum(12))]>>, <<"p">>),                                  \* D  p >= 3
  O(<<[k |-> "p", s |-> [type |-> <<"string">>]]>>, <<"p">>),                                          \* E  p string
  [required |-> <<"q">>],                                                                              \* F  required only
  O(<<[k |-> "r", s |-> [type |-> <<"boolean">>]]>>, <<>>),                                           \* G  no validator
  O(<<[k |-> "q", s |-> [type |-> <<"string">>, maxLength |-> 1]]>>, <<>>),                            \* H  q short, optional
  O(<<[k |-> "q", s |-> [type |-> <<"string">>, minLength |-> 2]]>>, <<"q">>),                         \* I  q long: another KEYWORD on B's property
  O(<<[k |-> "q", s |-> [type |-> <<"string", "null">>]]>>, <<>>) >>                                   \* J  q nullable: another TYPE LIST on B's property
NB == 10
Lists == {<<i>> : i \in 1..NB} \cup {<<i, j>> : i \in 1..NB, j \in 1..NB} \cup {<<i, j, k>> : i \in 1..NB, j \in 1..NB, k \in 1..NB}
Distinct(l) == \A i, j \in DOMAIN l : i # j => l[i] # l[j]

PV == <<"abs", JNum(4), JNum(8), JNum(12), JNum(16), JNum(20), JStr(<<"a">>)>>
QV == <<"abs", JStr(<<"a">>), JStr(<<"a", "b">>), JNum(4)>>
RV == <<"abs", JBool(TRUE), JStr(<<"a">>)>>
Docs == LET mk(i, j, k) == JObj( (IF i = 1 THEN <<>> ELSE <<KV("p", PV[i])>>) \o (IF j = 1 THEN <<>> ELSE <<KV("q", QV[j])>>)
                                 \o (IF k = 1 THEN <<>> ELSE <<KV("r", RV[k])>>) )
        IN SetToSeq({mk(i, j, k) : i \in DOMAIN PV, j \in DOMAIN QV, k \in DOMAIN RV})
Wrap(x) == JObj(<<KV("x", x)>>)

DefName(i) == <<"BA", "BB", "BC", "BD", "BE", "BF", "BG", "BH", "BI", "BJ">>[i]
Unit(c, f, l) ==
  LET byRef(pos) == f = "ref" \/ (f = "firstref" /\ pos = 1)
      br == [pos \in DOMAIN l |-> IF byRef(pos) THEN [ref |-> [k |-> "defs", n |-> DefName(l[pos])]] ELSE Branches[l[pos]]]
      defs == LET idx == SelectSeq([pos \in DOMAIN l |-> pos], LAMBDA pos : byRef(pos))
              IN [n \in DOMAIN idx |-> [k |-> DefName(l[idx[n]]), s |-> Branches[l[idx[n]]]]]
      xs == IF c = "allOf" THEN [allOf |-> br] ELSE [anyOf |-> br]
      \* a $ref branch of anyOf whose target has no validator has no UnmarshalJSON to call: no compile
      noVal(i) == i \in {7, 10}
      \* an inline anyOf branch without `type` becomes interface{}: the validator still names its type
      untyped(i) == i = 6
      nb == (IF c = "anyOf" /\ \E pos \in DOMAIN l : byRef(pos) /\ noVal(l[pos]) THEN <<"AnyOfRefBranchWithoutValidators">> ELSE <<>>)
            \o (IF c = "anyOf" /\ \E pos \in DOMAIN l : ~byRef(pos) /\ untyped(l[pos]) THEN <<"AnyOfUntypedBranchNoCompile">> ELSE <<>>)
  IN [prop |-> "C11", comb |-> c, form |-> f,
      schema |-> ("type" :> <<"object">>) @@ ("properties" :> <<[k |-> "x", s |-> xs]>>) @@ ("required" :> <<"x">>),
      defs |-> defs, docs |-> [i \in DOMAIN Docs |-> Wrap(Docs[i])], nobuild |-> nb]

\* anyOf whose branches are maps (objects without properties, typed additionalProperties): the branch
\* types are declared MAP types with their own unmarshaler
MapI == [type |-> <<"object">>, additionalProperties |-> [k |-> "s", s |-> Int_]]
MapS == [type |-> <<"object">>, additionalProperties |-> [k |-> "s", s |-> [type |-> <<"string">>]]]
MapUnit(l) ==
  LET br == [i \in DOMAIN l |-> IF l[i] = 1 THEN MapI ELSE MapS]
      docs == << JObj(<<>>), JObj(<<KV("a", JNum(4))>>), JObj(<<KV("a", JNum(4)), KV("b", JNum(8))>>),
                 JObj(<<KV("a", JNum(8)), KV("b", JStr(<<"a">>))>>), JObj(<<KV("a", JStr(<<"a">>))>>),
                 JObj(<<KV("a", JNum(4)), KV("b", JBool(TRUE))>>) >>
  IN [prop |-> "C11", comb |-> "anyOfMaps", form |-> "inline",
      schema |-> ("type" :> <<"object">>) @@ ("properties" :> <<[k |-> "x", s |-> [anyOf |-> br]]>>) @@ ("required" :> <<"x">>),
      defs |-> <<>>, docs |-> [i \in DOMAIN docs |-> Wrap(docs[i])], nobuild |-> <<>>,
      keep |-> TRUE]       \* rare shape: never dropped by sampling

u == IF comb = "anyOfMaps" THEN MapUnit(lst) ELSE Unit(comb, form, lst)
Set == lst # <<0>>

RefVerdict(unit, d)    == Valid(unit.defs, unit.schema, d, {}, "decl", NoLim)
DevVerdict(unit, d, D) == Valid(unit.defs, unit.schema, d, D, "decl", NoLim)

ImplAccepts(unit, d, D) ==
  LET x == ObjVal(d, "x")  xs == unit.schema.properties[1].s IN
  IF unit.comb = "anyOfMaps" THEN DevVerdict(unit, d, D) = Acc     \* no implementation-shaped model yet
  ELSE IF unit.comb = "allOf" THEN ImplAllOf(unit.defs, xs.allOf, x, D) ELSE ImplAnyOf(unit.defs, xs.anyOf, x, D)

Agree(unit, D) ==
  \A i \in DOMAIN unit.docs :
     LET r == DevVerdict(unit, unit.docs[i], D) IN
     r # Un => (ImplAccepts(unit, unit.docs[i], D) <=> r = Acc)

DesignOK == Set => LET unit == u IN Agree(unit, {})
AsIsOK   == Set => LET unit == u IN Agree(unit, Devs)

Init == \/ comb \in {"allOf", "anyOf"} /\ form \in {"inline", "ref", "firstref"} /\ lst = <<0>>
        \/ comb = "anyOfMaps" /\ form = "inline" /\ lst = <<0>>
Pick == /\ lst = <<0>>
        /\ lst' \in (IF comb = "anyOfMaps" THEN {<<1>>, <<1, 2>>, <<2, 1>>} ELSE {l \in Lists : Distinct(l)})
        /\ UNCHANGED <<comb, form>>
Next == Pick
Spec == Init /\ [][Next]_vars

Emit == Set => (UnitsFile = "" \/ LET unit == u IN PrintT("UNIT " \o ToJson(unit)))
=============================================================================
