------------------------------- MODULE Units -------------------------------
(***************************************************************************)
(* Unit construction shared by the runtime families.  A UNIT is an object    *)
(* schema with the single property "x" that holds a LEAF schema at one of    *)
(* the position kinds the properties quantify over, plus the documents to    *)
(* try.  Units are what TLC enumerates, what the harness turns into real     *)
(* generated programs, and what the trace specification judges.              *)
(*                                                                          *)
(* ImplPos is the implementation-shaped model of what the generated          *)
(* UnmarshalJSON of the wrapper object does around the leaf check            *)
(* (pkg/generator/json_formatter.go generate + validator.go):                *)
(*   raw decode -> requiredValidator (raw map) -> typed decode ->            *)
(*   defaultValidator (absent or null => default) -> leaf validator with     *)
(*   nil guard for pointer fields.                                           *)
(***************************************************************************)
EXTENDS JV

Positions == {"req", "opt", "nullopt", "nullreq", "defreq", "defopt", "optdefault"}

\* "nulldef": a required property that refers to a definition whose own type list allows null (not in Positions: the
\* families that use it add it themselves)
PosNullable(pos) == pos \in {"nullopt", "nullreq", "nulldef"}
PosViaDef(pos)   == pos \in {"defreq", "defopt", "nulldef"}
PosReq(pos)      == pos \in {"req", "nullreq", "defreq", "nulldef"}

\* leaf: schema record with a "type" field; vals: sequence of documents for x; dflt: a valid default
PosUnit(prop, pos, leaf, vals, dflt) ==
  LET l1 == IF PosNullable(pos) THEN [leaf EXCEPT !.type = @ \o <<"null">>] ELSE leaf
      l2 == IF pos = "optdefault" THEN l1 @@ ("default" :> dflt) ELSE l1
      xs == IF PosViaDef(pos) THEN [ref |-> [k |-> "defs", n |-> "N"]] ELSE l2
  IN [prop   |-> prop,
      pos    |-> pos,
      schema |-> ("type" :> <<"object">>) @@ ("properties" :> <<[k |-> "x", s |-> xs]>>)
                 @@ (IF PosReq(pos) THEN "required" :> <<"x">> ELSE <<>>),
      defs   |-> IF PosViaDef(pos) THEN <<[k |-> "N", s |-> l2]>> ELSE <<>>,
      docs   |-> [i \in DOMAIN vals |-> JObj(<<KV("x", vals[i])>>)]
                 \o <<JObj(<<>>), JObj(<<KV("x", JNull)>>)>>]

Leaf(unit) == IF unit.defs = <<>> THEN unit.schema.properties[1].s ELSE unit.defs[1].s

\* encoding/json typed decode of a non-null JSON value into the Go type chosen for a primitive leaf
GoDecodes(ty, v) ==
  CASE ty = "string"  -> v.t \in {"str", "fmt"}
    [] ty = "integer" -> v.t \in {"num", "big"} /\ IsIntegral(v)
    [] ty = "number"  -> v.t \in {"num", "big"}
    [] ty = "boolean" -> v.t = "bool"
    [] OTHER -> TRUE

\* leafOK(v): the leaf validator accepts the non-null decoded value v
ImplPos(unit, d, leafOK(_)) ==
  LET leaf == Leaf(unit) IN
  IF ~ObjHas(d, "x") THEN
       IF "x" \in Required(unit.schema) /\ ~Has(leaf, "default") THEN FALSE   \* requiredValidator
       ELSE IF Has(leaf, "default") THEN leafOK(leaf.default)                 \* defaultValidator, then checks
       ELSE TRUE                                                              \* nil pointer: guarded
  ELSE IF ObjVal(d, "x").t = "null" THEN
       IF Has(leaf, "default") THEN leafOK(leaf.default) ELSE TRUE
  ELSE GoDecodes(Main(leaf), ObjVal(d, "x")) /\ leafOK(ObjVal(d, "x"))

RefVerdict(unit, d)      == Valid(unit.defs, unit.schema, d, {}, "decl", NoLim)
DevVerdict(unit, d, D)   == Valid(unit.defs, unit.schema, d, D, "decl", NoLim)
=============================================================================
