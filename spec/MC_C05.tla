------------------------------ MODULE MC_C05 ------------------------------
(***************************************************************************)
(* C05 -- numeric bounds and multipleOf are enforced exactly as stated.      *)
(*                                                                          *)
(* The state space is the set of UNITS (DESIGN.md 3.2, case analysis): every *)
(* combination of presence / kind / relative order of minimum, maximum,      *)
(* exclusiveMinimum, exclusiveMaximum (boolean or numeric form) and          *)
(* multipleOf, for integer and number, at every position kind.  For every    *)
(* unit TLC checks the implementation-shaped model (Bounds) against the      *)
(* reference semantics (JV.NumOK) on every test value; the same units are    *)
(* written to UnitsFile and replayed against the real generator.             *)
(***************************************************************************)
EXTENDS Bounds, Json, SequencesExt

CONSTANTS UnitsFile,   \* where the enumerated units are written ("" = do not write)
          Devs         \* open deviations (from known_findings.json)

\* Two-level enumeration so that TLC's workers share the work: the initial states fix (ty, pos, mult),
\* one Next step picks the four bounds (initial states are computed by a single thread).
VARIABLES ty, pos, mult, b       \* b = <<min, max, emin, emax>> or <<>> while unset
vars == <<ty, pos, mult, b>>

Off == [on |-> FALSE]
On(v) == [on |-> TRUE, v |-> v]

\* four constants: all relative orders and ties of up to four bounds occur
VInt == {-2, 0, 2, 4}      \* -1, 0, 1, 2
VNum == {-1, 0, 1, 3}      \* -0.5, 0, 0.5, 1.5
V(t_) == IF t_ = "integer" THEN VInt ELSE VNum
Mults(t_) == IF t_ = "integer" THEN {2, 4, 6} ELSE {1, 2, 3}

Incl(t_) == {Off} \cup {On(v) : v \in V(t_)}
Excl(t_) == {Off, On([k |-> "b", b |-> TRUE]), On([k |-> "b", b |-> FALSE])}
            \cup {On([k |-> "n", h |-> v]) : v \in V(t_)}
MultS(t_) == {Off} \cup {On(m) : m \in Mults(t_)}

Field(k, o) == IF o.on THEN k :> o.v ELSE <<>>

Positions == {"req", "opt", "nullopt", "nullreq", "defreq", "defopt"}

NumSchema(t_, nullable, mn, mx, emn, emx, ml) ==
  ("type" :> (IF nullable THEN <<t_, "null">> ELSE <<t_>>))
  @@ Field("minimum", mn) @@ Field("maximum", mx)
  @@ Field("exclusiveMinimum", emn) @@ Field("exclusiveMaximum", emx)
  @@ Field("multipleOf", ml)

\* The unit: an object with the single property "x" holding the numeric schema at the position.
Unit(ty_, pos_, min_, max_, emin_, emax_, mult_) ==
  LET nullable == pos_ \in {"nullopt", "nullreq"}
      viaDef   == pos_ \in {"defreq", "defopt"}
      req      == pos_ \in {"req", "nullreq", "defreq"}
      ns       == NumSchema(ty_, nullable, min_, max_, emin_, emax_, mult_)
      xs       == IF viaDef THEN [ref |-> [k |-> "defs", n |-> "N"]] ELSE ns
      lo       == (CHOOSE m \in V(ty_) : \A w \in V(ty_) : m <= w) - 2
      hi       == (CHOOSE m \in V(ty_) : \A w \in V(ty_) : m >= w) + 2
      vals     == [i \in 1..(hi - lo + 1) |-> JObj(<<KV("x", JNum(lo + i - 1))>>)]
  IN [prop   |-> "C05",
      pos    |-> pos_,
      schema |-> ("type" :> <<"object">>) @@ ("properties" :> <<[k |-> "x", s |-> xs]>>)
                 @@ (IF req THEN "required" :> <<"x">> ELSE <<>>),
      defs   |-> IF viaDef THEN <<[k |-> "N", s |-> ns]>> ELSE <<>>,
      docs   |-> vals \o <<JObj(<<>>), JObj(<<KV("x", JNull)>>)>>]

u == Unit(ty, pos, b[1], b[2], b[3], b[4], mult)
Set == b # <<>>

(* ---- design-level check: the implementation-shaped model against the reference ---- *)
XSchema(unit) == IF unit.defs = <<>> THEN unit.schema.properties[1].s ELSE unit.defs[1].s

\* what the generated code does with document d of the unit (x absent or null: no check runs)
ImplAccepts(unit, d, D) ==
  IF ~ObjHas(d, "x") THEN "x" \notin Required(unit.schema)      \* requiredValidator on the raw map
  ELSE IF ObjVal(d, "x").t = "null" THEN TRUE                   \* nil pointer / zero value: no check
  ELSE /\ (Main(XSchema(unit)) = "integer" => IsIntegral(ObjVal(d, "x")))  \* encoding/json typed decode
       /\ ImplNumAccepts(XSchema(unit), ObjVal(d, "x"), D)

RefVerdict(unit, d) == Valid(unit.defs, unit.schema, d, {}, "decl", NoLim)

\* the intended design satisfies C05 on every unit and test value
DesignOK == Set =>
  \A i \in DOMAIN u.docs :
     LET r == RefVerdict(u, u.docs[i]) IN
     r # Un => (ImplAccepts(u, u.docs[i], {}) <=> r = Acc)

\* the model of the tree as it is (open deviations) -- must hold too unless Devs names a C05 defect
AsIsOK == Set =>
  \A i \in DOMAIN u.docs :
     LET r == RefVerdict(u, u.docs[i]) IN
     r # Un => (ImplAccepts(u, u.docs[i], Devs) <=> r = Acc)

\* vacuity guards: both verdicts occur for this unit family (checked over all units by TLC's coverage)
Init == /\ ty \in {"integer", "number"} /\ pos \in Positions /\ mult \in MultS(ty) /\ b = <<>>
Pick == /\ b = <<>>
        /\ b' \in Incl(ty) \X Incl(ty) \X Excl(ty) \X Excl(ty)
        /\ UNCHANGED <<ty, pos, mult>>
Next == Pick
Spec == Init /\ [][Next]_vars

\* replay side: every unit is printed (one JSON line) for the harness
Emit == Set => (UnitsFile = "" \/ PrintT("UNIT " \o ToJson(u)))
=============================================================================
