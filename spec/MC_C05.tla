------------------------------ MODULE MC_C05 ------------------------------
(***************************************************************************)
(* C05 -- numeric bounds and multipleOf are enforced exactly as stated.      *)
(*                                                                          *)
(* The state space is the set of UNITS (DESIGN.md 3.2, case analysis): every *)
(* combination of presence / kind / relative order of minimum, maximum,      *)
(* exclusiveMinimum, exclusiveMaximum (boolean or numeric form) and          *)
(* multipleOf, for integer and number, at every position kind.  For every    *)
(* unit TLC checks the implementation-shaped model (Bounds) against the      *)
(* reference semantics (JV.NumOK) on every test value; the same units are    *)
(* written to UnitsFile and replayed against the real generator.             *)
(***************************************************************************)
EXTENDS Bounds, Units, Json, SequencesExt

CONSTANTS UnitsFile,   \* where the enumerated units are written ("" = do not write)
          Devs         \* open deviations (from known_findings.json)

\* Two-level enumeration so that TLC's workers share the work: the initial states fix (ty, pos, mult),
\* one Next step picks the four bounds (initial states are computed by a single thread).
VARIABLES ty, pos, mult, b       \* b = <<min, max, emin, emax>> or <<>> while unset
vars == <<ty, pos, mult, b>>

Off == [on |-> FALSE]
On(v) == [on |-> TRUE, v |-> v]

\* four constants: all relative orders and ties of up to four bounds occur
VInt == {-6, 0, 6, 8}      \* -1.5, 0, 1.5, 2      (quarters; a non-integral bound on an integer is legal, on either side of zero:
                           \*                        rounding toward zero and rounding into the range differ below zero)
VNum == {-2, 0, 1, 6}      \* -0.5, 0, 0.25, 1.5
\* "numberfar": type number with the same constants moved to 2^24 (K quarters): bounds such as 16777216.25 need more
\* significant digits than a float32 holds and must reach the emitted comparison exactly
K == 67108864
TyName(t_) == IF t_ = "numberfar" THEN "number" ELSE t_
V(t_) == IF t_ = "integer" THEN VInt ELSE IF t_ = "numberfar" THEN {K + v : v \in VNum} ELSE VNum
\* (10 and 2 on integers: 2.5 and 0.5, fractional divisors -- before fix for F-C05-fractional-multiple-int the divisor was truncated)
Mults(t_) == IF t_ = "integer" THEN {4, 8, 12, 10, 2} ELSE {1, 2, 4, 6}   \* 1,2,3 / 0.25,0.5,1,1.5 (1: the no-op for integers is a real constraint for numbers)

Incl(t_) == {Off} \cup {On(JNum(v)) : v \in V(t_)}
Excl(t_) == {Off, On([k |-> "b", b |-> TRUE]), On([k |-> "b", b |-> FALSE])}
            \cup {On([k |-> "n", h |-> JNum(v)]) : v \in V(t_)}
MultS(t_) == {Off} \cup {On(m) : m \in Mults(t_)}

Field(k, o) == IF o.on THEN k :> o.v ELSE <<>>

NumSchema(t_, nullable, mn, mx, emn, emx, ml) ==
  ("type" :> (IF nullable THEN <<TyName(t_), "null">> ELSE <<TyName(t_)>>))
  @@ Field("minimum", mn) @@ Field("maximum", mx)
  @@ Field("exclusiveMinimum", emn) @@ Field("exclusiveMaximum", emx)
  @@ Field("multipleOf", ml)

\* The unit: an object with the single property "x" holding the numeric schema at the position.
Unit(ty_, pos_, min_, max_, emin_, emax_, mult_) ==
  LET \* integer: every integer from below the smallest to above the largest constant plus two
      \* non-integral values; number: every quarter step
      step     == IF ty_ = "integer" THEN 4 ELSE 1
      lo       == (((CHOOSE m \in V(ty_) : \A w \in V(ty_) : m <= w) \div step) * step) - 2 * step   \* on the grid of the type
      hi       == (CHOOSE m \in V(ty_) : \A w \in V(ty_) : m >= w) + 2 * step
      grid     == [i \in 1..((hi - lo) \div step + 1) |-> JNum(lo + (i - 1) * step)]
      vals     == IF ty_ = "integer" THEN grid \o <<JNum(2), JNum(-3), JNum(6)>> ELSE grid
      leaf     == NumSchema(ty_, FALSE, min_, max_, emin_, emax_, mult_)
      \* a default that satisfies the leaf, if the grid holds one (else the position degenerates to "opt")
      okv      == {i \in DOMAIN grid : NumOK(leaf, grid[i], {}) /\ NumOK(leaf, grid[i], Devs)
                                        /\ (ty_ = "integer" => IsIntegral(grid[i]))}
      p        == IF pos_ = "optdefault" /\ okv = {} THEN "opt" ELSE pos_
      dflt     == IF okv = {} THEN JNull ELSE grid[CHOOSE i \in okv : \A j \in okv : i <= j]
  \* a NAMED number definition with multipleOf: `math.Mod(plain, ...)` on a defined type does not compile
  IN PosUnit("C05", p, leaf, vals, dflt)
     @@ [nobuild |-> IF TyName(ty_) = "number" /\ mult_.on /\ PosViaDef(p) THEN <<"NamedFloatMultipleOfNoCompile">> ELSE <<>>]

u == Unit(ty, pos, b[1], b[2], b[3], b[4], mult)
Set == b # <<>>

(* ---- design-level check: the implementation-shaped model against the reference ---- *)
\* what the generated code does with document d of the unit
ImplAccepts(unit, d, D) == ImplPos(unit, d, LAMBDA v : ImplNumAccepts(Leaf(unit), v, D))

\* the intended design satisfies C05 on every unit and test value
\* unit is bound once per state (an operator would be re-evaluated at every use)
Agree(unit, D) ==
  \A i \in DOMAIN unit.docs :
     LET r == DevVerdict(unit, unit.docs[i], D) IN
     r # Un => (ImplAccepts(unit, unit.docs[i], D) <=> r = Acc)

\* the intended design (no deviation) satisfies the property on every unit and document
DesignOK == Set => LET unit == u IN Agree(unit, {})
\* the two placements of the open deviations agree: switches inside the implementation-shaped model
\* and switches inside the reference semantics (JV.Valid) predict the same verdicts
AsIsOK   == Set => LET unit == u IN Agree(unit, Devs)

Init == /\ ty \in {"integer", "number", "numberfar"} /\ pos \in Positions /\ mult \in MultS(ty) /\ b = <<>>
        /\ (ty = "numberfar" => pos \in {"req", "nullopt", "defreq"} /\ (~mult.on \/ mult.v = 6))
Pick == /\ b = <<>>
        /\ b' \in Incl(ty) \X Incl(ty) \X Excl(ty) \X Excl(ty)
        /\ UNCHANGED <<ty, pos, mult>>
Next == Pick
Spec == Init /\ [][Next]_vars

\* replay side: every unit is printed (one JSON line) for the harness
Emit == Set => (UnitsFile = "" \/ LET unit == u IN PrintT("UNIT " \o ToJson(unit)))
=============================================================================
