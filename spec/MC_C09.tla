------------------------------ MODULE MC_C09 ------------------------------
(***************************************************************************)
(* C09 -- absent properties take their schema default; present values win.    *)
(* Units: property kinds (scalars, nullable scalars, string and mixed enums,   *)
(* arrays, nested arrays, inline and referenced objects with required and      *)
(* optional fields, typed additional-properties maps, formats, sized ints)     *)
(* x default value x required flag.  Documents: property absent, null,          *)
(* present with another valid value, present with the default value.            *)
(* The emitted default literal must have the Go type of the field: a unit        *)
(* whose program does not compile is judged too (nobuild lists the deviations    *)
(* that predict it).                                                             *)
(***************************************************************************)
EXTENDS JV, Json, SequencesExt

CONSTANTS UnitsFile, Devs

VARIABLES kind, req, which     \* which = 0 while unset, else index of the default
vars == <<kind, req, which>>

Int_ == [type |-> <<"integer">>]
Str_ == [type |-> <<"string">>]
SA == JStr(<<"a">>)  SB == JStr(<<"b", "qt", "bs", "e2", "pc", "a">>)   \* a, b"\é%a  (quote, backslash, non-ASCII, a printf verb)

\* kind -> [s: schema without default, vals: two valid values (either can be the default), dev: deviation
\*          that predicts the program not to compile ("" = compiles), opts]
K(s, v1, v2, dev) == [s |-> s, vals |-> <<v1, v2>>, dev |-> dev, sized |-> FALSE]
ObjPQ(reqd) == ("type" :> <<"object">>) @@ ("properties" :> <<[k |-> "p", s |-> Int_], [k |-> "q", s |-> Str_]>>)
               @@ (IF reqd THEN "required" :> <<"p", "q">> ELSE <<>>)
PQ(a, b) == JObj(<<KV("p", JNum(a)), KV("q", b)>>)

KindTable ==
  [ int      |-> K(Int_, JNum(4), JNum(-8), ""),
    num      |-> K([type |-> <<"number">>], JNum(6), JNum(8), ""),
    str      |-> K(Str_, SA, SB, ""),
    bool     |-> K([type |-> <<"boolean">>], JBool(TRUE), JBool(FALSE), ""),
    \* nullable scalars are pointer fields (the bare literal did not compile before fix 5105be8)
    nullint  |-> K([type |-> <<"integer", "null">>], JNum(4), JNum(8), ""),
    nullstr  |-> K([type |-> <<"string", "null">>], SA, SB, ""),
    nullnum  |-> K([type |-> <<"null", "number">>], JNum(6), JNum(-8), ""),
    nullbool |-> K([type |-> <<"boolean", "null">>], JBool(TRUE), JBool(FALSE), ""),
    nullsized |-> [K(("type" :> <<"integer", "null">>) @@ ("minimum" :> JNum(0)) @@ ("maximum" :> JNum(40)), JNum(20), JNum(40), "")
                  EXCEPT !.sized = TRUE],
    strenum  |-> K([type |-> <<"string">>, enum |-> <<SA, SB>>], SA, SB, ""),
    untenum  |-> K([enum |-> <<SA, SB>>], SA, SB, ""),
    mixenum  |-> K([enum |-> <<SA, JNum(4)>>], SA, JNum(4), "DefaultOnWrappedEnum"),
    arrstr   |-> K([type |-> <<"array">>, items |-> Str_], JArr(<<SA>>), JArr(<<SB, SA>>), ""),
    arrint   |-> K([type |-> <<"array">>, items |-> Int_], JArr(<<JNum(4), JNum(8)>>), JArr(<<>>), ""),
    arr2     |-> K([type |-> <<"array">>, items |-> [type |-> <<"array">>, items |-> Int_]],
                   JArr(<<JArr(<<JNum(4)>>)>>), JArr(<<JArr(<<>>), JArr(<<JNum(8)>>)>>), "DefaultOnNestedArray"),
    objreq   |-> K(ObjPQ(TRUE), PQ(4, SA), PQ(8, SB), ""),
    objopt   |-> K(ObjPQ(FALSE), PQ(4, SA), PQ(8, SB), "DefaultOnObjectWithOptionalFields"),
    addlmap  |-> K([type |-> <<"object">>, additionalProperties |-> [k |-> "s", s |-> Str_]],
                   JObj(<<KV("k", SA)>>), JObj(<<KV("k", SB), KV("j", SA)>>), ""),
    \* the typed maps are filled from the default (before fix 64007ab they were emitted empty)
    addlmapint  |-> K([type |-> <<"object">>, additionalProperties |-> [k |-> "s", s |-> Int_]],
                      JObj(<<KV("k", JNum(12))>>), JObj(<<KV("k", JNum(-4)), KV("j", JNum(0))>>), ""),
    addlmapnum  |-> K([type |-> <<"object">>, additionalProperties |-> [k |-> "s", s |-> [type |-> <<"number">>]]],
                      JObj(<<KV("k", JNum(6))>>), JObj(<<KV("j", JNum(8))>>), ""),
    addlmapbool |-> K([type |-> <<"object">>, additionalProperties |-> [k |-> "s", s |-> [type |-> <<"boolean">>]]],
                      JObj(<<KV("k", JBool(TRUE))>>), JObj(<<KV("k", JBool(FALSE)), KV("j", JBool(TRUE))>>), ""),
    date     |-> K([type |-> <<"string">>, format |-> "date"], JFmt("date"), JFmt("date"), "DefaultOnFormat"),
    datetime |-> K([type |-> <<"string">>, format |-> "date-time"], JFmt("date-time"), JFmt("date-time"), "DefaultOnFormat"),
    anyzero  |-> K([type |-> <<>>], JNum(0), JBool(FALSE), ""),          \* untyped: interface{} field, zero-like defaults
    anyval   |-> K([type |-> <<>>], JNum(4), SA, ""),
    multi    |-> K([type |-> <<"number", "string">>], JStr(<<>>), JNum(6), ""),
    sized    |-> [K(("type" :> <<"integer">>) @@ ("minimum" :> JNum(0)) @@ ("maximum" :> JNum(40)), JNum(20), JNum(40), "")
                  EXCEPT !.sized = TRUE] ]
Kinds == DOMAIN KindTable \cup {"objref"}

Wrap(x) == JObj(<<KV("x", x)>>)

Unit(k, r, w) ==
  LET viaRef == k = "objref"
      row == IF viaRef THEN KindTable["objreq"] ELSE KindTable[k]
      dflt == row.vals[w]
      other == row.vals[3 - w]
      xs == IF viaRef THEN ("ref" :> [k |-> "defs", n |-> "N"]) @@ ("default" :> dflt)
            ELSE row.s @@ ("default" :> dflt)
  IN [prop |-> "C09", kind |-> k, req |-> r,
      schema |-> ("type" :> <<"object">>) @@ ("properties" :> <<[k |-> "x", s |-> xs]>>)
                 @@ (IF r THEN "required" :> <<"x">> ELSE <<>>),
      defs |-> IF viaRef THEN <<[k |-> "N", s |-> row.s]>> ELSE <<>>,
      docs |-> <<JObj(<<>>), Wrap(JNull), Wrap(other), Wrap(dflt)>>,
      nobuild |-> IF row.dev = "" THEN <<>> ELSE <<row.dev>>,
      opts |-> [minSizedInts |-> row.sized]]

u == Unit(kind, req, which)
Set == which # 0

\* design-level sanity of the reference: the documents of every unit are valid (absent and present),
\* and the reference relation Decoded accepts exactly the intended decoded value for each of them
Intended(unit, i) == IF i <= 2 THEN Wrap(unit.schema.properties[1].s.default) ELSE unit.docs[i]
DesignOK == Set => LET unit == u IN
  \A i \in DOMAIN unit.docs :
     /\ Valid(unit.defs, unit.schema, unit.docs[i], {}, "decl", NoLim) \in {Acc, Un}
     /\ Decoded(unit.defs, unit.schema, unit.docs[i], Intended(unit, i), {})
     /\ ((i <= 2 /\ ~JEq(unit.docs[3], unit.docs[4])) =>
           ~Decoded(unit.defs, unit.schema, unit.docs[i], unit.docs[3], {}))   \* another value is not the default
AsIsOK == TRUE

Init == kind \in Kinds /\ req \in BOOLEAN /\ which = 0
Pick == which = 0 /\ which' \in {1, 2} /\ UNCHANGED <<kind, req>>
Next == Pick
Spec == Init /\ [][Next]_vars

Emit == Set => (UnitsFile = "" \/ LET unit == u IN PrintT("UNIT " \o ToJson(unit)))
=============================================================================
