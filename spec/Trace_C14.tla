----------------------------- MODULE Trace_C14 -----------------------------
(***************************************************************************)
(* Trace specification for C14 (names): one event per name given to the real   *)
(* generator as the sole property of its own object:                           *)
(*   [name |-> sequence of character class ids,                                *)
(*    cats |-> category sequence of the field identifier found in the emitted   *)
(*             source ("Lu","Ll","Lo","Nd","Nx","US","P"),                        *)
(*    tagok |-> the json tag carries the exact original name,                    *)
(*    found |-> the declaration was found in the emitted source]                  *)
(* TLC recomputes the identifier machine (spec/Names.tla) on the name.            *)
(***************************************************************************)
EXTENDS Names, Json

CONSTANTS ObsFile, Devs
VARIABLES l, tally
vars == <<l, tally>>
Obs == ndJsonDeserialize(ObsFile)

Pred(e) == Cats(Identifierize(e.name, Devs))
\* "Undefined" is a whole word in the model: compare it as one item with the observed letters collapsed
ObsCats(e) == IF Pred(e) = <<"WORD">> THEN (IF e.ident = "Undefined" THEN <<"WORD">> ELSE e.cats) ELSE e.cats
RefOK(e) == e.found /\ ValidExported(ObsCats(e)) /\ e.tagok
Classify(e) ==
  IF RefOK(e) THEN (IF ObsCats(e) = Pred(e) THEN "ok" ELSE "drift")
  ELSE IF e.found /\ e.tagok /\ ObsCats(e) = Pred(e) THEN "known"      \* exactly the invalid identifier the as-is model predicts
  ELSE "violation"
Report(n, e, c) ==
  PrintT("REPORT " \o ToJson([l |-> n, i |-> 1, class |-> c, kind |-> "name", devs |-> <<>>,
                             ref |-> "valid exported identifier, tag = name", obs |-> ToJson(e.cats), impl |-> ToJson(Pred(e))]))
Step(n, e, t) ==
  LET c == Classify(e) IN
  IF c = "ok" \/ Report(n, e, c)
  THEN [ok |-> t.ok + (IF c \in {"ok", "drift"} THEN 1 ELSE 0), un |-> 0, known |-> t.known + (IF c = "known" THEN 1 ELSE 0),
        viol |-> t.viol + (IF c = "violation" THEN 1 ELSE 0), drift |-> t.drift + (IF c = "drift" THEN 1 ELSE 0),
        acc |-> t.acc + 1, rej |-> t.rej + (IF Len(Split(e.name, Devs)) > 1 THEN 1 ELSE 0)]
  ELSE t
Init == l = 0 /\ tally = [ok |-> 0, un |-> 0, known |-> 0, viol |-> 0, drift |-> 0, acc |-> 0, rej |-> 0]
Next == l < Len(Obs) /\ l' = l + 1 /\ tally' = Step(l + 1, Obs[l + 1], tally)
Spec == Init /\ [][Next]_vars
Done == l = Len(Obs) => PrintT("TALLY " \o ToJson(tally))
Accepted == TLCGet("stats").diameter = Len(Obs) + 1
=============================================================================
