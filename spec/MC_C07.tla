------------------------------ MODULE MC_C07 ------------------------------
(***************************************************************************)
(* C07 -- array length limits are enforced at every nesting level.           *)
(* Units: nesting depth 1..3, per level one of the limit options, element     *)
(* kind (integer | object with a required key), position.  Documents:         *)
(* uniform nested arrays for every vector of per-level lengths 0..3, ragged   *)
(* arrays whose sibling inner arrays differ in length, one document with an   *)
(* invalid element, absent, null.                                             *)
(***************************************************************************)
EXTENDS ArrImpl, Units, Json, SequencesExt

CONSTANTS UnitsFile, Devs, Tier

VARIABLES pos, ek, depth, lims     \* lims: sequence of per-level options, <<>> while unset
vars == <<pos, ek, depth, lims>>

Lim(mn, mx) == [min |-> mn, max |-> mx]     \* -1 = absent
FullOpts  == {Lim(-1, -1), Lim(1, -1), Lim(2, -1), Lim(-1, 1), Lim(-1, 2), Lim(1, 2), Lim(2, 2), Lim(-1, 0), Lim(2, 3)}
SmallOpts == {Lim(-1, -1), Lim(1, -1), Lim(-1, 2), Lim(2, 3)}
Opts(d, k) == IF Tier = "quick" /\ (d = 3 \/ k = "cint") THEN SmallOpts ELSE FullOpts

ArrPositions == {"req", "opt", "nullopt", "nullreq", "defreq", "defopt", "optdefault", "nulldef"}

\* "cint": a primitive element with a constraint of its own ("its elements are validated by their own element
\* schema"): integer with minimum 1
ElemSchema(k) == IF k = "int" THEN [type |-> <<"integer">>]
                 ELSE IF k = "cint" THEN ("type" :> <<"integer">>) @@ ("minimum" :> JNum(4))
                 ELSE ("type" :> <<"object">>) @@ ("properties" :> <<[k |-> "k", s |-> [type |-> <<"integer">>]]>>)
                      @@ ("required" :> <<"k">>)
ElemDoc(k)    == IF k = "int" THEN JNum(0) ELSE IF k = "cint" THEN JNum(4) ELSE JObj(<<KV("k", JNum(4))>>)
BadElem(k)    == IF k = "int" THEN JStr(<<"a">>) ELSE IF k = "cint" THEN JNum(0) ELSE JObj(<<>>)

RECURSIVE ArrSchema(_, _, _)
ArrSchema(ls, k, ekind) ==
  IF k > Len(ls) THEN ElemSchema(ekind)
  ELSE ("type" :> <<"array">>) @@ ("items" :> ArrSchema(ls, k + 1, ekind))
       @@ (IF ls[k].min # -1 THEN "minItems" :> ls[k].min ELSE <<>>)
       @@ (IF ls[k].max # -1 THEN "maxItems" :> ls[k].max ELSE <<>>)

RECURSIVE Uni(_, _, _)
Uni(n, k, leaf) == IF k > Len(n) THEN leaf ELSE JArr([i \in 1..n[k] |-> Uni(n, k + 1, leaf)])

Lens == 0..3
Vectors(d) == IF d = 1 THEN {<<a>> : a \in Lens}
              ELSE IF d = 2 THEN {<<a, b>> : a \in Lens, b \in Lens}
              ELSE {<<a, b, c>> : a \in Lens, b \in Lens, c \in Lens}
\* ragged: two siblings at level 2 of different shape
Ragged(d, leaf) ==
  IF d = 1 THEN {}
  ELSE IF d = 2 THEN {JArr(<<Uni(<<pq[1]>>, 1, leaf), Uni(<<pq[2]>>, 1, leaf)>>) :
                       pq \in {x \in Lens \X Lens : x[1] # x[2]}}
  ELSE {JArr(<<Uni(v, 1, leaf), Uni(w, 1, leaf)>>) :
          v \in {<<1, 1>>, <<2, 3>>, <<1, 3>>}, w \in {<<2, 1>>, <<1, 2>>, <<3, 0>>}}

DocsFor(d, ekind) ==
  LET leaf == ElemDoc(ekind)
      uni  == {Uni(n, 1, leaf) : n \in Vectors(d)}
      bad  == {Uni([i \in 1..d |-> 1], 1, BadElem(ekind))}
  IN SetToSeq(uni \cup Ragged(d, leaf) \cup bad)

Unit(pos_, ekind, ls) ==
  LET leaf == ArrSchema(ls, 1, ekind)
      docs == DocsFor(Len(ls), ekind)
      okv  == {i \in DOMAIN docs : /\ Valid(<<>>, leaf, docs[i], {}, "field", NoLim) = Acc
                                     /\ Valid(<<>>, leaf, docs[i], Devs, "field", NoLim) = Acc}
      p    == IF pos_ = "optdefault" /\ (okv = {} \/ ekind # "int") THEN "opt" ELSE pos_
      dflt == IF okv = {} THEN JNull ELSE docs[CHOOSE i \in okv : \A j \in okv : i <= j]
  IN PosUnit("C07", p, leaf, docs, dflt)
     @@ [nobuild |-> IF p = "optdefault" /\ Len(ls) >= 2 THEN <<"DefaultOnNestedArray">> ELSE <<>>]

u == Unit(pos, ek, lims)
Set == lims # <<>>

\* elements are validated by their own schema (typed decode / the element type's own unmarshaler)
RECURSIVE Leaves(_)
Leaves(v) == IF v.t = "arr" THEN UNION {Leaves(v.a[i]) : i \in DOMAIN v.a} ELSE {v}
ElemOK(ekind, e) == IF ekind = "int" THEN e.t = "num" /\ IsIntegral(e)
                    ELSE IF ekind = "cint" THEN e.t = "num" /\ IsIntegral(e) /\ e.h >= 4
                    ELSE e.t = "obj" /\ ObjHas(e, "k")
RECURSIVE ShapeOK(_, _)     \* typed decode into [][]..T: exactly d levels of arrays
ShapeOK(v, d) == IF d = 0 THEN v.t # "arr" ELSE v.t = "arr" /\ \A i \in DOMAIN v.a : ShapeOK(v.a[i], d - 1)

\* a declared array type ($ref position) has anonymous-struct elements: typed decode only
ElemTypedOK(ekind, e) == IF ekind \in {"int", "cint"} THEN e.t = "num" /\ IsIntegral(e) ELSE e.t = "obj"

ImplAccepts(unit, d, D) ==
  ImplPos(unit, d, LAMBDA v :
     /\ ShapeOK(v, depth)
     \* deviation "ArrayItemConstraintsIgnored": an inline primitive items schema only picks the element's Go type
     /\ \A e \in Leaves(v) : IF \/ (PosViaDef(unit.pos) /\ "DeclaredArrayElemUnvalidated" \in D)
                                  \/ (ek = "cint" /\ "ArrayItemConstraintsIgnored" \in D)
                               THEN ElemTypedOK(ek, e) ELSE ElemOK(ek, e)
     /\ IF PosViaDef(unit.pos) THEN ImplDeclArrLengthsAccept(Leaf(unit), v, D)
        ELSE ImplArrLengthsAccept(Leaf(unit), v, D))

\* unit is bound once per state (an operator would be re-evaluated at every use)
Agree(unit, D) ==
  \A i \in DOMAIN unit.docs :
     LET r == DevVerdict(unit, unit.docs[i], D) IN
     r # Un => (ImplAccepts(unit, unit.docs[i], D) <=> r = Acc)

\* the intended design (no deviation) satisfies the property on every unit and document
DesignOK == Set => LET unit == u IN Agree(unit, {})
\* the two placements of the open deviations agree: switches inside the implementation-shaped model
\* and switches inside the reference semantics (JV.Valid) predict the same verdicts
AsIsOK   == Set => LET unit == u IN Agree(unit, Devs)

Init == pos \in ArrPositions /\ ek \in {"int", "obj", "cint"} /\ depth \in (IF ek = "cint" THEN 1..2 ELSE 1..3) /\ lims = <<>>
Pick == /\ lims = <<>>
        /\ lims' \in [1..depth -> Opts(depth, ek)]
        /\ UNCHANGED <<pos, ek, depth>>
Next == Pick
Spec == Init /\ [][Next]_vars

Emit == Set => (UnitsFile = "" \/ LET unit == u IN PrintT("UNIT " \o ToJson(unit)))
=============================================================================
