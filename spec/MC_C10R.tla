------------------------------ MODULE MC_C10R ------------------------------
(***************************************************************************)
(* C10 (second part) -- recursive references terminate and yield types that     *)
(* decode documents of any nesting depth; each definition yields one Go type.    *)
(* TLC explores EVERY graph on NDefs definitions in which each definition has     *)
(* an optional property p that is a reference (to any definition or absent) and    *)
(* an optional property q that is an array of references (likewise): self-loops,    *)
(* 2- and 3-cycles, diamonds, cycles through array items, unreachable                *)
(* definitions.  For each graph it runs the generator's walk (spec/RefGraph.tla)      *)
(* and checks termination, one declaration per definition and an empty cycle scope,   *)
(* and emits one unit: the schema, and EVERY document that follows the graph's edges    *)
(* to depth Depth with a valid, an invalid or no leaf value at the end.                  *)
(* The harness generates, compiles and executes every unit; spec/Trace_RT.tla judges     *)
(* verdicts and decoded values, spec/Trace_C10R.tla termination, declarations and the    *)
(* deep documents (depth 200 along a cycle must decode; depth 10001 must not crash).      *)
(***************************************************************************)
EXTENDS JV, Json, SequencesExt, FiniteSetsExt

CONSTANTS UnitsFile, Devs, Tier, NDefs, RD      \* RD: deviations of the walk model (selftest only)

AllDefs == <<"A", "B", "C">>
Order == SubSeq(AllDefs, 1, NDefs)
Defs == {Order[i] : i \in 1..NDefs}
None == "-"
Targets == Defs \cup {None}
\* with two definitions a third optional property r wraps its reference in an allOf: {"allOf": [{"$ref": ..}]}, the usual
\* way of decorating a reference
EdgesOf(p, q, r) == (IF p = None THEN <<>> ELSE <<[to |-> p, via |-> "prop", name |-> "p"]>>)
                    \o (IF q = None THEN <<>> ELSE <<[to |-> q, via |-> "items", name |-> "q"]>>)
                    \o (IF r = None THEN <<>> ELSE <<[to |-> r, via |-> "allof", name |-> "r"]>>)
RTargets == IF NDefs = 2 THEN Targets ELSE {None}
Graphs == {[d \in Defs |-> EdgesOf(c[d][1], c[d][2], c[d][3])] : c \in [Defs -> Targets \X Targets \X RTargets]}

VARIABLES Edge, todo, stack, declared, emitted, inScope, steps
INSTANCE RefGraph

Int1 == ("type" :> <<"integer">>) @@ ("minimum" :> JNum(4))
RefTo(d) == [ref |-> [k |-> "defs", n |-> d]]
DefSchema(d) ==
  ("type" :> <<"object">>) @@
  ("properties" :> [i \in DOMAIN Edge[d] |->
                       [k |-> Edge[d][i].name,
                        s |-> IF Edge[d][i].via = "prop" THEN RefTo(Edge[d][i].to)
                              ELSE IF Edge[d][i].via = "allof" THEN [allOf |-> <<RefTo(Edge[d][i].to)>>]
                              ELSE [type |-> <<"array">>, items |-> RefTo(Edge[d][i].to)]]]
                   \o <<[k |-> "v", s |-> Int1]>>)

Depth == IF NDefs = 2 THEN (IF Tier = "thorough" THEN 4 ELSE 3) ELSE (IF Tier = "thorough" THEN 3 ELSE 2)
LeafDocs == {JObj(<<>>), JObj(<<KV("v", JNum(4))>>), JObj(<<KV("v", JNum(0))>>)}
WrapE(e, sub) == IF e.via \in {"prop", "allof"} THEN JObj(<<KV(e.name, sub)>>) ELSE JObj(<<KV(e.name, JArr(<<JObj(<<>>), sub>>))>>)
RECURSIVE DocsAt(_, _)
DocsAt(d, k) ==
  LeafDocs \cup (IF k = 0 THEN {}
                 ELSE UNION {{WrapE(Edge[d][i], sub) : sub \in DocsAt(Edge[d][i].to, k - 1)} : i \in DOMAIN Edge[d]})

RECURSIVE ReachFrom(_)
ReachFrom(S) == LET T == S \cup UNION {{Edge[d][i].to : i \in DOMAIN Edge[d]} : d \in S} IN IF T = S THEN S ELSE ReachFrom(T)
\* a definition on a cycle that is reachable from A
OnCycle(d) == \E i \in DOMAIN Edge[d] : d \in ReachFrom({Edge[d][i].to})
Cyclic == \E d \in ReachFrom({"A"}) : OnCycle(d)
\* an allOf-wrapped reference that lies on a cycle (deviation "RecursiveAllOfUnsupported": the generator merges the
\* branch by value and gives up); generated: every definition of the document / the documents reachable from A
AllOfCycle(gen) == \E d \in gen : \E i \in DOMAIN Edge[d] : Edge[d][i].via = "allof" /\ d \in ReachFrom({Edge[d][i].to})

GraphUnit ==
  [prop |-> "C10", kind |-> "graph", ndefs |-> NDefs,
   schema |-> ("type" :> <<"object">>) @@ ("properties" :> <<[k |-> "a", s |-> RefTo("A")]>>),
   defs |-> [i \in 1..NDefs |-> [k |-> Order[i], s |-> DefSchema(Order[i])]],
   gonames |-> [i \in 1..NDefs |-> [k |-> Order[i], reach |-> TRUE]],     \* every definition of a document is generated
   allofcycle |-> AllOfCycle(Defs), nobuild |-> IF AllOfCycle(Defs) THEN <<"RecursiveAllOfUnsupported">> ELSE <<>>,
   edges |-> [i \in 1..NDefs |-> [k |-> Order[i], e |-> Edge[Order[i]]]],
   cyclic |-> Cyclic,
   docs |-> SetToSeq({JObj(<<KV("a", sub)>>) : sub \in DocsAt("A", Depth)})]

\* the same graph with every definition in a document of its own: root.json -> g/a.json, and inside g/ the
\* documents refer to each other by bare file name (relative to g/, not to the root's directory)
Lower(d) == CASE d = "A" -> "a" [] d = "B" -> "b" [] d = "C" -> "c"
PathTo(d) == [ref |-> [k |-> "path", segs |-> <<Lower(d) \o ".json">>, frag |-> "", n |-> d]]
FileSchema(d) ==
  ("type" :> <<"object">>) @@
  ("properties" :> [i \in DOMAIN Edge[d] |->
                       [k |-> Edge[d][i].name,
                        s |-> IF Edge[d][i].via = "prop" THEN PathTo(Edge[d][i].to)
                              ELSE IF Edge[d][i].via = "allof" THEN [allOf |-> <<PathTo(Edge[d][i].to)>>]
                              ELSE [type |-> <<"array">>, items |-> PathTo(Edge[d][i].to)]]]
                   \o <<[k |-> "v", s |-> Int1]>>)
\* only the documents reachable from A exist for the generator; the others are never loaded
GraphUnitFiles ==
  [prop |-> "C10", kind |-> "filegraph", ndefs |-> NDefs,
   rootpath |-> <<"root.json">>, roottype |-> "RootJson", exts |-> <<>>, ldefs |-> <<>>, strip |-> <<>>,
   schema |-> ("type" :> <<"object">>) @@ ("properties" :> <<[k |-> "a", s |-> [ref |-> [k |-> "path", segs |-> <<"g", "a.json">>, frag |-> "", n |-> "A"]]]>>),
   defs |-> [i \in 1..NDefs |-> [k |-> Order[i], s |-> FileSchema(Order[i])]],        \* environment of Valid only (envonly)
   envonly |-> TRUE,
   files |-> [i \in 1..NDefs |-> [path |-> <<"g", Lower(Order[i]) \o ".json">>, name |-> Order[i], s |-> FileSchema(Order[i]), defs |-> <<>>, yaml |-> FALSE]],
   gonames |-> [i \in 1..NDefs |-> [k |-> Order[i] \o "Json", reach |-> Order[i] \in ReachFrom({"A"})]],
   allofcycle |-> AllOfCycle(ReachFrom({"A"})), nobuild |-> IF AllOfCycle(ReachFrom({"A"})) THEN <<"RecursiveAllOfUnsupported">> ELSE <<>>,
   edges |-> [i \in 1..NDefs |-> [k |-> Order[i], e |-> Edge[Order[i]]]],
   cyclic |-> Cyclic,
   docs |-> SetToSeq({JObj(<<KV("a", sub)>>) : sub \in DocsAt("A", Depth)})]

\* ... and with the document of A itself as the argument of the run, spelled non-canonically (g/./a.json): when a cycle
\* of file references leads back to it, it must be recognised as the document the run started from
GraphUnitRooted ==
  [prop |-> "C10", kind |-> "filegraphroot", ndefs |-> NDefs, wrap |-> FALSE,
   rootpath |-> <<"g", ".", "a.json">>, roottype |-> "AJson", exts |-> <<>>, ldefs |-> <<>>, strip |-> <<>>,
   schema |-> FileSchema("A"),
   defs |-> [i \in 1..NDefs |-> [k |-> Order[i], s |-> FileSchema(Order[i])]], envonly |-> TRUE,
   files |-> [i \in 1..(NDefs - 1) |-> [path |-> <<"g", Lower(Order[i + 1]) \o ".json">>, name |-> Order[i + 1], s |-> FileSchema(Order[i + 1]), defs |-> <<>>, yaml |-> FALSE]],
   gonames |-> [i \in 1..NDefs |-> [k |-> Order[i] \o "Json", reach |-> Order[i] \in ReachFrom({"A"})]],
   allofcycle |-> AllOfCycle(ReachFrom({"A"})), nobuild |-> IF AllOfCycle(ReachFrom({"A"})) THEN <<"RecursiveAllOfUnsupported">> ELSE <<>>,
   edges |-> [i \in 1..NDefs |-> [k |-> Order[i], e |-> Edge[Order[i]]]],
   cyclic |-> Cyclic,
   docs |-> SetToSeq(DocsAt("A", Depth))]

\* ... and with every definition COMPOSED: {"type": "object", "allOf": [{the reference properties}, {v}]}, the "extends a
\* base" idiom; a definition on a cycle is then an object without properties of its own whose fields come from the merge
\* (two definitions only)
ComposedSchema(d) ==
  [type |-> <<"object">>,
   allOf |-> << ("type" :> <<"object">>) @@
                ("properties" :> [i \in DOMAIN Edge[d] |->
                       [k |-> Edge[d][i].name,
                        s |-> IF Edge[d][i].via = "prop" THEN RefTo(Edge[d][i].to)
                              ELSE IF Edge[d][i].via = "allof" THEN [allOf |-> <<RefTo(Edge[d][i].to)>>]
                              ELSE [type |-> <<"array">>, items |-> RefTo(Edge[d][i].to)]]]),
                ("type" :> <<"object">>) @@ ("properties" :> <<[k |-> "v", s |-> Int1]>>) >>]
GraphUnitComposed ==
  [prop |-> "C10", kind |-> "graphcomposed", ndefs |-> NDefs,
   schema |-> ("type" :> <<"object">>) @@ ("properties" :> <<[k |-> "a", s |-> RefTo("A")]>>),
   defs |-> [i \in 1..NDefs |-> [k |-> Order[i], s |-> ComposedSchema(Order[i])]],
   gonames |-> [i \in 1..NDefs |-> [k |-> Order[i], reach |-> TRUE]],
   allofcycle |-> AllOfCycle(Defs), nobuild |-> IF AllOfCycle(Defs) THEN <<"RecursiveAllOfUnsupported">> ELSE <<>>,
   edges |-> [i \in 1..NDefs |-> [k |-> Order[i], e |-> Edge[Order[i]]]],
   cyclic |-> Cyclic,
   docs |-> SetToSeq({JObj(<<KV("a", sub)>>) : sub \in DocsAt("A", Depth)})]
\* definitions without any edge have an EMPTY first branch: not the idiom, left out
Composable == NDefs = 2 /\ \A d \in Defs : Edge[d] # <<>>

DesignOK == StepsBounded /\ OncePerDef /\ AllDeclared /\ ScopeEmpty
AsIsOK == TRUE
Init == GInit
Next == GNext
Spec == GSpec
Emit == Finished => (UnitsFile = "" \/ (PrintT("UNIT " \o ToJson(GraphUnit)) /\ PrintT("UNIT " \o ToJson(GraphUnitFiles))
                                         /\ PrintT("UNIT " \o ToJson(GraphUnitRooted))
                                         /\ (~Composable \/ PrintT("UNIT " \o ToJson(GraphUnitComposed)))))
=============================================================================
