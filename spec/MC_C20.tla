------------------------------ MODULE MC_C20 ------------------------------
(***************************************************************************)
(* C20 -- each schema's code lands once, in the file and package mapped to its  *)
(* id.  Layout space: files a, b, c (+ an unrelated z) x reference graph x        *)
(* mapping mode x directory layout; for every layout TLC explores EVERY order      *)
(* of every non-empty subset of the files as arguments (spec/Outputs.tla), checks   *)
(* EmittedOnce / Placement / NothingLost / ConflictFails and that the final          *)
(* outputs restricted to a file's types do not depend on the order or on             *)
(* unrelated extra arguments; it prints, per (layout, order), the expected            *)
(* outputs, which the harness compares with the real generator's.                      *)
(***************************************************************************)
EXTENDS Outputs, Json

CONSTANTS Devs, Tier, Graph, Mapping, Dirs, Tag

FilesDef == {"a", "b", "c", "z"}
RefsDef == [f \in FilesDef |->
  CASE Graph = "none"    -> {}
    [] Graph = "chain"   -> IF f = "a" THEN {"b"} ELSE IF f = "b" THEN {"c"} ELSE {}
    [] Graph = "diamond" -> IF f = "a" THEN {"b", "c"} ELSE IF f = "b" THEN {"c"} ELSE {}
    [] Graph = "cycle"   -> IF f = "a" THEN {"b"} ELSE IF f = "b" THEN {"a"} ELSE {}]
Up(f) == CASE f = "a" -> "A" [] f = "b" -> "B" [] f = "c" -> "C" [] f = "z" -> "Z"
\* where every schema has a package of its own ("own", "samebase") each file also carries a definition Base and a
\* property mix = allOf[{"$ref": "#/$defs/Base"}, ..]: the textually identical reference with a different target in
\* every document (in a shared package the same-named definitions would be renamed by order of arrival)
OwnPkgs == Mapping \in {"own", "samebase"}
\* mapping "own" also names the root type of every id (--schema-root-type): Root<F> instead of <F>Json
RootName(f) == IF Mapping = "own" \/ (Mapping = "rootonly" /\ f = "b") \/ (Mapping = "mixedflags" /\ f \in {"a", "c"})
               THEN "Root" \o Up(f) ELSE Up(f) \o "Json"
TypesDef == [f \in FilesDef |-> {RootName(f), Up(f) \o "Def"} \cup (IF OwnPkgs THEN {RootName(f) \o "Mix"} ELSE {})]
CommonDef == IF OwnPkgs THEN {"Base"} ELSE {}
\* mapping modes: default (everything to one file / package), own (each id its own), sharedsame (a and b share a
\* file and package), shareddiff (a and b share a file under different packages: must fail), pkgonly (b has a
\* package mapping but no output mapping), rootonly (b has a root type mapping only); the last two run through main.go
OutDef == [f \in FilesDef |->
  CASE Mapping = "default"    -> "all/all.go"
    [] Mapping = "own"        -> "p" \o f \o "/" \o f \o ".go"
    \* different import paths that end in the SAME element: every package is called model
    [] Mapping = "samebase"   -> "p" \o f \o "/model/" \o f \o ".go"
    [] Mapping = "sharedsame" -> IF f \in {"a", "b"} THEN "pab/ab.go" ELSE "p" \o f \o "/" \o f \o ".go"
    \* onepkg: ONE package spread over one output file per schema: references between the files stay unqualified and
    \* no file imports its own package
    [] Mapping = "onepkg"     -> "pone/" \o f \o ".go"
    [] Mapping = "shareddiff" -> IF f \in {"a", "b"} THEN "pab/ab.go" ELSE "p" \o f \o "/" \o f \o ".go"
    \* an id named by ONE per-schema flag only: what is not named falls back to the default output / package
    \* (before fix 0c5462d the output name stayed empty and the schema's code was written nowhere)
    \* mixedflags: a is named by --schema-root-type only, b by package + output, c by output + package + root type,
    \* z by nothing; every id is written with an upper-case scheme and an empty fragment ("HTTPS://example.com/a#"),
    \* ids are compared as the text they are
    [] Mapping = "mixedflags" -> IF f \in {"b", "c"} THEN "p" \o f \o "/" \o f \o ".go" ELSE "all/all.go"
    [] Mapping \in {"pkgonly", "rootonly"} -> IF f = "b" /\ "PackageWithoutOutputLost" \in Devs THEN "" ELSE "all/all.go"]
PkgDef == [f \in FilesDef |->
  CASE Mapping = "default"    -> "all"
    [] Mapping = "own"        -> "p" \o f
    [] Mapping = "samebase"   -> "model"
    [] Mapping = "sharedsame" -> IF f \in {"a", "b"} THEN "pab" ELSE "p" \o f
    [] Mapping = "onepkg"     -> "pone"
    [] Mapping = "shareddiff" -> IF f = "a" THEN "pab" ELSE IF f = "b" THEN "pother" ELSE "p" \o f
    \* pkgonly: b asks for package pb in the default output, which everything else uses under package all: a run that
    \* emits b next to another schema must fail (one file, two packages), a run of b alone yields package pb
    [] Mapping = "pkgonly"    -> IF f = "b" THEN "pb" ELSE "all"
    [] Mapping = "rootonly"   -> "all"
    [] Mapping = "mixedflags" -> IF f \in {"b", "c"} THEN "p" \o f ELSE "all"]

Seqs(S) == UNION {{s \in [1..n -> S] : \A i, j \in 1..n : i # j => s[i] # s[j]} : n \in 1..Cardinality(S)}
OrdersDef == IF Tier = "quick" THEN {s \in Seqs(FilesDef) : Len(s) <= 2 \/ (Len(s) = 3 /\ "z" \notin {s[i] : i \in DOMAIN s})}
             ELSE Seqs(FilesDef)

\* history independence: the part of the final outputs that belongs to the files reachable from an argument
\* list depends only on that set of files, not on order or extras -- it equals the canonical placement
HistoryIndependent == Finished => \A f \in declared : OutOf[f] # "" =>
                        (TypesOf[f] \subseteq outs[OutOf[f]].types /\ outs[OutOf[f]].pkg = PkgOf[f])

\* Go cannot build packages that import each other: where the reference graph has a cycle across packages the
\* clause "the emitted packages build together" cannot be met by any generator and is not judged
PkgCycle == Graph = "cycle" /\ {"a", "b"} \subseteq declared /\ OutOf["a"] # OutOf["b"] /\ PkgOf["a"] # "" /\ OutOf["a"] # "" /\ OutOf["b"] # ""
            /\ <<OutOf["a"], PkgOf["a"]>> # <<OutOf["b"], PkgOf["b"]>> /\ Mapping \in {"own", "samebase", "mixedflags"}
\* deviation "SameBaseImportClash": the import alias is the last element of the import path, so a file that refers to
\* two packages whose paths end in the same element declares the alias twice and does not compile
ImportClash == \E f \in declared : \E g, h \in RefsOf[f] : g # h /\ PkgOf[g] = PkgOf[h] /\ OutOf[g] # OutOf[h]
                                                          /\ OutOf[g] # OutOf[f] /\ OutOf[h] # OutOf[f]
EmitRun == (failed \/ Finished) =>
  PrintT("RUN " \o ToJson([tag |-> Tag, graph |-> Graph, mapping |-> Mapping, dirs |-> Dirs, args |-> args, failed |-> failed,
                          declared |-> declared, outs |-> Emitted,
                          pkgcycle |-> PkgCycle,
                          nobuild |-> "SameBaseImportClash" \in Devs /\ ImportClash,
                          lost |-> \E f \in declared : OutOf[f] = ""]))     \* a schema routed to the empty output name
=============================================================================
