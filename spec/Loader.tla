------------------------------- MODULE Loader -------------------------------
(***************************************************************************)
(* File references: pkg/schemas/loaders.go QualifiedFileName, FileLoader,     *)
(* CachedLoader, and the part of pkg/generator/schema_generator.go             *)
(* generateReferencedType that follows a reference into another file.          *)
(*                                                                          *)
(* A PATH is a sequence of segments (<<"sub", "n.json">>), a reference is       *)
(* written as a sequence of segments too (<<"..", "n.json">>), so that TLC      *)
(* never has to split a string.  The file system of a run is the set of paths   *)
(* that exist (FS).                                                             *)
(*                                                                          *)
(*   Norm          filepath.Join/Clean: "." dropped, ".." pops                  *)
(*   Qualified     QualifiedFileName: relative to the directory of the          *)
(*                 REFERRING document, then the first of "" and the              *)
(*                 --resolve-extension list, in order, that names an existing    *)
(*                 file                                                          *)
(*   LoadAll       the CachedLoader as a state machine folded over the            *)
(*                 sequence of loads a generation run performs: state = cache,    *)
(*                 one step per Load(uri, parent).                                 *)
(*                                                                          *)
(* C10: every reference resolves to the file the file system says, relative    *)
(* to the referring document.  The cache key decides whether that holds when     *)
(* two documents in different directories write the same relative reference:    *)
(* deviation "CacheKeyedByRawRef" (key = the text of the reference) returns the   *)
(* FIRST document's target to the second; the intended design keys the cache by   *)
(* the reference resolved against the referrer's directory.                        *)
(* Deviation "NestedRefRelativeToRoot": references inside a referenced document    *)
(* were resolved against the document the run started from (fixed in /repo).       *)
(***************************************************************************)
EXTENDS Integers, Sequences, FiniteSets, TLC

NoPath == <<"?">>

Dir(p) == IF Len(p) = 0 THEN <<>> ELSE SubSeq(p, 1, Len(p) - 1)

RECURSIVE NormAcc(_, _)
NormAcc(acc, rest) ==
  IF rest = <<>> THEN acc
  ELSE LET h == Head(rest) IN
       IF h = "." THEN NormAcc(acc, Tail(rest))
       ELSE IF h = ".." /\ acc # <<>> /\ acc[Len(acc)] # ".." THEN NormAcc(SubSeq(acc, 1, Len(acc) - 1), Tail(rest))
       ELSE NormAcc(Append(acc, h), Tail(rest))
Norm(p) == NormAcc(<<>>, p)

AddExt(p, ext) == IF p = <<>> THEN p ELSE [p EXCEPT ![Len(p)] = @ \o ext]

\* QualifiedFileName(fileName, parentFileName, resolveExtensions) on the file system FS
RECURSIVE FirstExisting(_, _, _)
FirstExisting(FS, base, exts) ==
  IF exts = <<>> THEN NoPath
  ELSE IF AddExt(base, Head(exts)) \in FS THEN AddExt(base, Head(exts))
  ELSE FirstExisting(FS, base, Tail(exts))
Qualified(FS, parent, segs, exts) == FirstExisting(FS, Norm(Dir(parent) \o segs), <<"">> \o exts)

\* ---- the cached loader as a fold over the loads of a run ----
\* load: [from |-> path of the referring document, segs |-> reference as written, root |-> path of the
\*        document the run started from]
\* cache: set of [key, got]
CacheKey(ld, D) == IF "CacheKeyedByRawRef" \in D THEN ld.segs ELSE Norm(Dir(ld.from) \o ld.segs)
Parent(ld, D)   == IF "NestedRefRelativeToRoot" \in D THEN ld.root ELSE ld.from
Lookup(cache, k) == IF \E c \in cache : c.key = k THEN (CHOOSE c \in cache : c.key = k).got ELSE NoPath
RECURSIVE LoadAll(_, _, _, _, _)
LoadAll(FS, exts, loads, cache, D) ==
  IF loads = <<>> THEN <<>>
  ELSE LET ld  == Head(loads)
           k   == CacheKey(ld, D)
           hit == \E c \in cache : c.key = k
           got == IF hit THEN Lookup(cache, k) ELSE Qualified(FS, Parent(ld, D), ld.segs, exts)
       IN <<got>> \o LoadAll(FS, exts, Tail(loads), IF hit \/ got = NoPath THEN cache ELSE cache \cup {[key |-> k, got |-> got]}, D)

\* what the file system says each load must return
Intended(FS, exts, loads) == [i \in DOMAIN loads |-> Qualified(FS, loads[i].from, loads[i].segs, exts)]

RelativeToDocument(FS, exts, loads, D) == LoadAll(FS, exts, loads, {}, D) = Intended(FS, exts, loads)
=============================================================================
