------------------------------ MODULE IntSize ------------------------------
(***************************************************************************)
(* IMPLEMENTATION-SHAPED model of --min-sized-ints                           *)
(*   pkg/codegen/utils.go  getMinIntType, adjustForSignedBounds,             *)
(*                         adjustForUnsignedBounds, and the in-place removal *)
(*                         of bounds in PrimitiveTypeFromJSONSchemaType      *)
(* Numerals are landmark records [t |-> "big", sg, e, o] = sg*2^e + o (JV).   *)
(* Type limits are landmarks themselves, so every comparison in the Go code   *)
(* (on float64) is a lexicographic comparison here.  float64 rounding of      *)
(* constants >= 2^53 is the deviation "Float64Bounds" (pinned by the goldens  *)
(* under minSizedInts): small offsets from +-2^63 / 2^64 are lost.            *)
(***************************************************************************)
EXTENDS Bounds

Big(sg, e, o) == [t |-> "big", sg |-> sg, e |-> e, o |-> o]
Plus(x, k) == [x EXCEPT !.o = @ + k]

MinInt(b) == Big(-1, b - 1, 0)       \* -2^(b-1)
MaxInt(b) == Big(1, b - 1, -1)       \*  2^(b-1) - 1
MaxUint(b) == Big(1, b, -1)          \*  2^b - 1
Zero == Big(0, 0, 0)

\* float64(x) for |x| >= 2^53 rounds the small offset away
F64(x, D) == IF "Float64Bounds" \in D /\ x.e >= 63 THEN [x EXCEPT !.o = 0] ELSE x

\* getMinIntType: normalise, turn exclusive bounds into inclusive ones, pick signed/unsigned ladder
\* returns [ty, removeMin, removeMax]
AdjustSigned(nMin, nMax, D) ==
  LET lo == IF nMin.on THEN F64(nMin.v, D) ELSE Zero
      hi == IF nMax.on THEN F64(nMax.v, D) ELSE Zero
      Eq(a, b) == NumEQ(a, F64(b, D))
  IN
  IF ~nMin.on /\ ~nMax.on THEN [ty |-> "int64", rmin |-> FALSE, rmax |-> FALSE]
  ELSE IF ~nMin.on THEN [ty |-> "int64", rmin |-> FALSE, rmax |-> Eq(hi, MaxInt(64))]
  ELSE IF ~nMax.on THEN [ty |-> "int64", rmin |-> Eq(lo, MinInt(64)), rmax |-> FALSE]
  ELSE IF NumLT(lo, MinInt(32)) \/ NumLT(MaxInt(32), hi)
       THEN [ty |-> "int64", rmin |-> Eq(lo, MinInt(64)), rmax |-> Eq(hi, MaxInt(64))]
  ELSE IF NumLT(lo, MinInt(16)) \/ NumLT(MaxInt(16), hi)
       THEN [ty |-> "int32", rmin |-> Eq(lo, MinInt(32)), rmax |-> Eq(hi, MaxInt(32))]
  ELSE IF NumLT(lo, MinInt(8)) \/ NumLT(MaxInt(8), hi)
       THEN [ty |-> "int16", rmin |-> Eq(lo, MinInt(16)), rmax |-> Eq(hi, MaxInt(16))]
  ELSE [ty |-> "int8", rmin |-> Eq(lo, MinInt(8)), rmax |-> Eq(hi, MaxInt(8))]

AdjustUnsigned(nMin, nMax, D) ==
  LET rmin == nMin.on /\ NumEQ(nMin.v, Zero)
      hi == IF nMax.on THEN F64(nMax.v, D) ELSE Zero
      Eq(a, b) == NumEQ(a, F64(b, D))
  IN
  IF ~nMax.on THEN [ty |-> "uint64", rmin |-> rmin, rmax |-> FALSE]
  ELSE IF NumLT(MaxUint(32), hi) THEN [ty |-> "uint64", rmin |-> rmin, rmax |-> Eq(hi, MaxUint(64))]
  ELSE IF NumLT(MaxUint(16), hi) THEN [ty |-> "uint32", rmin |-> rmin, rmax |-> Eq(hi, MaxUint(32))]
  ELSE IF NumLT(MaxUint(8), hi)  THEN [ty |-> "uint16", rmin |-> rmin, rmax |-> Eq(hi, MaxUint(16))]
  ELSE [ty |-> "uint8", rmin |-> rmin, rmax |-> Eq(hi, MaxUint(8))]

MinIntType(min, max, emin, emax, D) ==
  LET n == Normalize(min, max, emin, emax, D)
      lo == IF n.minEx /\ n.min.on THEN Ptr(Plus(n.min.v, 1)) ELSE n.min
      hi == IF n.maxEx /\ n.max.on THEN Ptr(Plus(n.max.v, -1)) ELSE n.max
  IN IF lo.on /\ NumLE(Zero, lo.v) THEN AdjustUnsigned(lo, hi, D) ELSE AdjustSigned(lo, hi, D)

\* range of the Go types
TyMin(ty) == CASE ty = "int8" -> MinInt(8) [] ty = "int16" -> MinInt(16) [] ty = "int32" -> MinInt(32)
               [] ty = "int64" -> MinInt(64) [] OTHER -> Zero
TyMax(ty) == CASE ty = "int8" -> MaxInt(8) [] ty = "int16" -> MaxInt(16) [] ty = "int32" -> MaxInt(32)
               [] ty = "int64" -> MaxInt(64) [] ty = "uint8" -> MaxUint(8) [] ty = "uint16" -> MaxUint(16)
               [] ty = "uint32" -> MaxUint(32) [] ty = "uint64" -> MaxUint(64)
InRange(ty, x) == NumLE(TyMin(ty), x) /\ NumLE(x, TyMax(ty))

\* What the generated code accepts for integer schema s and integral value x.
\*  flag off: Go int (64 bit) + numericValidator on all stated bounds
\*  flag on : chosen type's range (encoding/json) + numericValidator on the bounds left after removal
\* In-place removal (PrimitiveTypeFromJSONSchemaType): removeMin clears minimum and the exclusive
\* keyword of the same side (deviation RemoveCrossedExclusive: of the OTHER side).
ImplSizedAccepts(s, x, flag, D) ==
  LET min == PMin(s)  max == PMax(s)
      emin == PEx(s, "exclusiveMinimum")  emax == PEx(s, "exclusiveMaximum")
  IN
  IF ~flag THEN InRange("int64", x) /\ ~NumCheckRejects(min, max, emin, emax, Nil, x, TRUE, D)
  ELSE LET r == MinIntType(min, max, emin, emax, D)
           crossed == "RemoveCrossedExclusive" \in D
           min2  == IF r.rmin THEN Nil ELSE min
           max2  == IF r.rmax THEN Nil ELSE max
           emin2 == IF (IF crossed THEN r.rmax ELSE r.rmin) THEN [on |-> FALSE] ELSE emin
           emax2 == IF (IF crossed THEN r.rmin ELSE r.rmax) THEN [on |-> FALSE] ELSE emax
       IN InRange(r.ty, x) /\ ~NumCheckRejects(min2, max2, emin2, emax2, Nil, x, TRUE, D)

\* Deviation "SizedSharedNodeRevisited": the removal above is written INTO the schema node (PrimitiveTypeFromJSONSchemaType
\* nils the keywords through pointers). A node that is generated a second time -- a property of a definition that an
\* allOf merge shares by pointer with the definition itself -- is typed and checked from what the first visit left.
ImplSizedAcceptsRevisited(s, x, D) ==
  LET min == PMin(s)  max == PMax(s)
      emin == PEx(s, "exclusiveMinimum")  emax == PEx(s, "exclusiveMaximum")
      r == MinIntType(min, max, emin, emax, D)
      min2  == IF r.rmin THEN Nil ELSE min
      max2  == IF r.rmax THEN Nil ELSE max
      emin2 == IF r.rmin THEN [on |-> FALSE] ELSE emin
      emax2 == IF r.rmax THEN [on |-> FALSE] ELSE emax
      q == MinIntType(min2, max2, emin2, emax2, D)
      min3  == IF q.rmin THEN Nil ELSE min2
      max3  == IF q.rmax THEN Nil ELSE max2
      emin3 == IF q.rmin THEN [on |-> FALSE] ELSE emin2
      emax3 == IF q.rmax THEN [on |-> FALSE] ELSE emax2
  IN InRange(q.ty, x) /\ ~NumCheckRejects(min3, max3, emin3, emax3, Nil, x, TRUE, D)
\* a property n of a definition N reached through x: {allOf: [{$ref N}, {...}]}: the value at x.n
ImplSharedPos(d, leaf, flag, D) ==
  /\ ObjHas(d, "x") /\ ObjVal(d, "x").t = "obj"
  /\ LET xo == ObjVal(d, "x") IN
     \/ ~ObjHas(xo, "n") \/ ObjVal(xo, "n").t = "null"
     \/ LET v == ObjVal(xo, "n") IN
        /\ v.t \in {"num", "big"} /\ IsIntegral(v)
        /\ IF flag /\ "SizedSharedNodeRevisited" \in D THEN ImplSizedAcceptsRevisited(leaf, v, D)
           ELSE ImplSizedAccepts(leaf, v, flag, D)
=============================================================================
