------------------------------ MODULE Options ------------------------------
(***************************************************************************)
(* What each output-shaping option is ALLOWED to influence (C16), as a table  *)
(* over the components of an emitted program, and the option lattice TLC        *)
(* enumerates: every option set over the six options and every pair of sets      *)
(* that differ in exactly one option.                                            *)
(*   components                                                                  *)
(*     types    the type declarations (struct tags erased)                        *)
(*     alpha    the whole file up to a consistent renaming of identifiers          *)
(*     notags   the whole file with struct tags erased                             *)
(*     json     the text of the generated JSON methods                              *)
(*   one-sided obligations                                                          *)
(*     nofuncs / novars   (the side WITH --only-models)                             *)
(*     yamlfree           (the side WITHOUT --extra-imports)                        *)
(***************************************************************************)
EXTENDS FiniteSets, Sequences, TLC

OptionNames == {"onlymodels", "tags", "caps", "title", "roottype", "extraimports"}

\* components that must be EQUAL on the two sides of a pair differing in option o
MustEqual(o) ==
  CASE o = "onlymodels"   -> {"types"}
    [] o = "tags"         -> {"notags"}
    [] o \in {"caps", "title", "roottype"} -> {"alpha"}
    [] o = "extraimports" -> {"json", "types"}
\* obligations on the side that HAS the option / that LACKS it
With(o)    == IF o = "onlymodels" THEN {"nofuncs", "novars"} ELSE {}
Without(o) == IF o = "extraimports" THEN {"yamlfree"} ELSE {}

\* sanity of the table itself: every option constrains something, and an option never has to keep
\* what it names (tags must not be in MustEqual("tags") as "alpha" or the full text, ...)
TableOK == /\ \A o \in OptionNames : MustEqual(o) # {}
           /\ "alpha" \notin MustEqual("tags") /\ "notags" \notin MustEqual("caps")

Pairs == {<<S, o>> : S \in SUBSET OptionNames, o \in OptionNames} 
ValidPair(p) == p[2] \notin p[1]        \* a = S, b = S \cup {o}
=============================================================================
