------------------------------ MODULE StrImpl ------------------------------
(***************************************************************************)
(* IMPLEMENTATION-SHAPED model of the string validator                      *)
(*   pkg/generator/schema_generator.go structFieldValidators (string case)   *)
(*   pkg/generator/validator.go        stringValidator.generate              *)
(* schemas.Type stores minLength/maxLength as Go ints with omitempty, so the  *)
(* generator cannot tell "maxLength: 0" from an absent keyword: that is the   *)
(* deviation "ZeroMaxIgnored".  The emitted checks use len(string), i.e.      *)
(* UTF-8 bytes: deviation "LengthInBytes".                                    *)
(***************************************************************************)
EXTENDS JV

GoMinLen(s) == IF Has(s, "minLength") THEN s.minLength ELSE 0
GoMaxLen(s) == IF Has(s, "maxLength") THEN s.maxLength ELSE 0
HasPattern(s) == Has(s, "pattern")

\* structFieldValidators: attached iff MinLength != 0 || MaxLength != 0 || pattern != ""
\* (in the intended design: iff a keyword that can reject is present)
StrValidatorAttached(s, D) ==
  IF "ZeroMaxIgnored" \in D THEN GoMinLen(s) # 0 \/ GoMaxLen(s) # 0 \/ HasPattern(s)
  ELSE GoMinLen(s) # 0 \/ Has(s, "maxLength") \/ HasPattern(s)

\* stringValidator.generate, on a non-nil value cs
StrCheckRejects(s, cs, D) ==
  LET n == IF "LengthInBytes" \in D THEN ByteLen(cs) ELSE Len(cs)
      maxChecked == IF "ZeroMaxIgnored" \in D THEN GoMaxLen(s) # 0 ELSE Has(s, "maxLength")
  IN \/ HasPattern(s) /\ ~PatMatch(s.pattern, cs)          \* regexp.MatchString first
     \/ GoMinLen(s) # 0 /\ n < GoMinLen(s)
     \/ maxChecked /\ n > GoMaxLen(s)

ImplStrAccepts(s, v, D) == ~(StrValidatorAttached(s, D) /\ StrCheckRejects(s, v.s, D))
=============================================================================
