------------------------------ MODULE MapOrder ------------------------------
(***************************************************************************)
(* STATE MACHINE of the places where the tool ranges over a Go map (whose      *)
(* iteration order is random per run) on the way from input to output:          *)
(*   main.go allKeys            keys of the three mapping flags -> the ORDER of   *)
(*                              cfg.SchemaMappings (not sorted)                    *)
(*   generate.go                getRootTypeName / findOutputFileForSchemaID scan    *)
(*                              cfg.SchemaMappings for the FIRST entry whose id       *)
(*                              matches                                               *)
(*   generate.go Sources        ranges over g.outputs, collects text per file name    *)
(*   loaders.go                 QualifiedFileName tries --resolve-extension values in       *)
(*                              the order of the user's slice                                *)
(*   utils.go sortedKeys /      properties and definitions are sorted before use      *)
(*   sortDefinitionsByName                                                            *)
(*   codegen/model.go           imports and declarations are sorted before emission    *)
(* The environment picks a permutation at every unsorted site.  C12: the emitted        *)
(* (file name -> content) map is the same for every choice.                              *)
(* Deviation "FuzzyIdMatch" (used by the sensitivity tests; never open on the            *)
(* unchanged tree): ids are matched up to a trailing "#", so two mappings can match       *)
(* one schema and the first in (random) order wins.                                       *)
(***************************************************************************)
EXTENDS Integers, Sequences, FiniteSets, TLC

CONSTANTS Schemas,     \* set of schema ids given on the command line
          MapIds,      \* ids named by the mapping flags (may carry a trailing "#")
          PkgOf, OutOf,\* functions MapIds -> package / output name
          Props,       \* function Schemas -> set of property names
          Exts,        \* --resolve-extension values in the order the user gave them (a sequence)
          Cands,       \* the extensions for which a candidate file of an extension-less reference exists
          D

VARIABLES phase, order, outputs, emitted, picked     \* picked: the extension the loader resolved the reference with
vars == <<phase, order, outputs, emitted, picked>>

Perms(S) == {p \in [1..Cardinality(S) -> S] : \A i, j \in DOMAIN p : i # j => p[i] # p[j]}
Matches(m, id) == m = id \/ ("FuzzyIdMatch" \in D /\ (m = id \o "#" \/ m \o "#" = id))

Init == phase = "mappings" /\ order = <<>> /\ outputs = <<>> /\ emitted = <<>> /\ picked = "?"

\* main.go: for _, id := range allKeys(...) { cfg.SchemaMappings = append(...) }   (random order)
AssembleMappings == /\ phase = "mappings"
                    /\ order' \in Perms(MapIds)
                    /\ phase' = "load" /\ UNCHANGED <<outputs, emitted, picked>>

\* loaders.go QualifiedFileName: the candidates are tried in the order of the --resolve-extension SLICE; the first
\* existing one wins.  Deviation "ExtOrderByMap" (sensitivity only): the extensions pass through a map first, so any
\* order can occur.
FirstIn(seq) == seq[CHOOSE k \in DOMAIN seq : seq[k] \in Cands /\ \A j \in 1..(k - 1) : seq[j] \notin Cands]
ExtSet == {Exts[k] : k \in DOMAIN Exts}
Load == /\ phase = "load"
        /\ IF Cands \cap ExtSet = {} THEN picked' = "none"
           ELSE IF "ExtOrderByMap" \in D THEN \E p \in Perms(ExtSet) : picked' = FirstIn(p)
           ELSE picked' = FirstIn(Exts)
        /\ phase' = "generate" /\ UNCHANGED <<order, outputs, emitted>>

FirstMatch(id) == IF \E k \in DOMAIN order : Matches(order[k], id)
                  THEN order[CHOOSE k \in DOMAIN order : Matches(order[k], id) /\ \A j \in 1..(k - 1) : ~Matches(order[j], id)]
                  ELSE "default"
\* DoFile for every schema (argument order is fixed by the user): output file/package by first match
Generate == /\ phase = "generate"
            /\ outputs' = [s \in Schemas |-> [file |-> IF FirstMatch(s) = "default" THEN "-" ELSE OutOf[FirstMatch(s)],
                                              pkg  |-> IF FirstMatch(s) = "default" THEN "main" ELSE PkgOf[FirstMatch(s)],
                                              decls |-> Props[s]]]          \* declarations are SORTED at emission: a set
            /\ phase' = "sources" /\ UNCHANGED <<order, emitted, picked>>
\* Sources(): range over outputs (random order), text collected per file name; declarations sorted inside a file
Sources == /\ phase = "sources"
           /\ \E p \in Perms(Schemas) :
                emitted' = [f \in {outputs[s].file : s \in Schemas} |->
                              [pkgs |-> {outputs[s].pkg : s \in {x \in Schemas : outputs[x].file = f}},
                               decls |-> UNION {outputs[s].decls : s \in {x \in Schemas : outputs[x].file = f}}]]
           /\ phase' = "done" /\ UNCHANGED <<order, outputs, picked>>
Done == phase = "done" /\ UNCHANGED vars
Next == AssembleMappings \/ Load \/ Generate \/ Sources \/ Done
Spec == Init /\ [][Next]_vars

\* C12: whatever the permutations, the result is the one obtained with exact id matching in any fixed order
Canonical == [f \in {IF \E m \in MapIds : m = s THEN OutOf[s] ELSE "-" : s \in Schemas} |->
                [pkgs |-> {IF \E m \in MapIds : m = s THEN PkgOf[s] ELSE "main" : s \in {x \in Schemas : (IF \E m \in MapIds : m = x THEN OutOf[x] ELSE "-") = f}},
                 decls |-> UNION {Props[s] : s \in {x \in Schemas : (IF \E m \in MapIds : m = x THEN OutOf[x] ELSE "-") = f}}]]
OrderIndependent == phase = "done" => (emitted = Canonical /\ picked = (IF Cands \cap ExtSet = {} THEN "none" ELSE FirstIn(Exts)))
=============================================================================
