------------------------------- MODULE JV -------------------------------
(***************************************************************************)
(* Abstract JSON values and the REFERENCE semantics of the JSON-Schema      *)
(* keyword set that go-jsonschema supports.                                 *)
(*                                                                          *)
(* Documents are tagged records (TLC cannot compare values of different     *)
(* kinds, so the tag is always compared first):                             *)
(*   [t |-> "null"]                                                         *)
(*   [t |-> "bool", b |-> BOOLEAN]                                          *)
(*   [t |-> "num",  h |-> Int]        h counts QUARTERS: 6 stands for 1.5  *)
(*   [t |-> "big",  e |-> Nat, sg |-> {-1,1}, o |-> Int]   sg*2^e + o       *)
(*   [t |-> "str",  s |-> Seq(CharId)]                                      *)
(*   [t |-> "fmt",  f |-> format name]   the canonical string of a format   *)
(*                       ("2006-01-02", "15:04:05", "2006-01-02T15:04:05Z",  *)
(*                        "192.0.2.1", "2001:db8::1")                         *)
(*   [t |-> "arr",  a |-> Seq(Doc)]                                         *)
(*   [t |-> "obj",  o |-> Seq([k |-> STRING, v |-> Doc])]   keys distinct   *)
(*                                                                          *)
(* Schemas are records whose fields are the JSON-Schema keywords; every     *)
(* field is optional (tested with Has).  Conventions that differ from the   *)
(* JSON text, undone by the harness' concretiser (harness/abs/concretize.go)*)
(*   type                 always a sequence of type names                   *)
(*   minimum, maximum                 a "num" or "big" numeral record        *)
(*   multipleOf                       Int in quarters                         *)
(*   exclusiveMinimum/Maximum         [k |-> "b", b |-> BOOLEAN] or         *)
(*                                    [k |-> "n", h |-> Int]                *)
(*   pattern              a pattern id, see PatMatch                        *)
(*   properties, defs     sequence of [k |-> name, s |-> Schema]            *)
(*   additionalProperties [k |-> "b", b |-> BOOLEAN] or [k |-> "s", s |-> S]*)
(*   enum                 sequence of Doc;   default: Doc                   *)
(*   ref                  [k |-> "defs"|"definitions"|"file", n |-> name]   *)
(*                                                                          *)
(* Valid(env, s, d, D) is three-valued: "acc", "rej" or "un" (the listed    *)
(* properties say nothing about this input).  D is a set of named           *)
(* DEVIATIONS: Valid(.., {}) is the reference semantics the properties      *)
(* demand, Valid(.., D) is what the tool enforces instead when the defects  *)
(* in D are present (DESIGN.md 5.3, known_findings.json).                   *)
(***************************************************************************)
EXTENDS Integers, Sequences, FiniteSets, TLC

Has(r, k) == k \in DOMAIN r

JNull      == [t |-> "null"]
JBool(b)   == [t |-> "bool", b |-> b]
JNum(h)    == [t |-> "num", h |-> h]
JStr(cs)   == [t |-> "str", s |-> cs]
JArr(a)    == [t |-> "arr", a |-> a]
JObj(kv)   == [t |-> "obj", o |-> kv]
KV(k, v)   == [k |-> k, v |-> v]

Rng(f) == {f[i] : i \in DOMAIN f}

(* ---------- object access ---------- *)
ObjKeys(d)   == {d.o[i].k : i \in DOMAIN d.o}
ObjHas(d, k) == \E i \in DOMAIN d.o : d.o[i].k = k
ObjGet(d, k) == (CHOOSE i \in DOMAIN d.o : d.o[i].k = k) \* index
ObjVal(d, k) == d.o[ObjGet(d, k)].v

(* ---------- JSON equality ---------- *)
\* Numerals have two encodings ("num" in quarters, "big" landmark + offset).  The harness abstracts
\* observed JSON numbers below 2^18 as "num" and larger ones as "big" (abs.FromJSON); unit families that
\* write small values as landmarks (C15: 2^7, 2^8, 2^15, 2^16 and 0 as e = 0) are brought to the same
\* encoding before comparison, so that JSON equality is equality of VALUES.
FmtVar(d) == IF "v" \in DOMAIN d THEN d.v ELSE ""       \* variant id of a "fmt" document ("" = the canonical one)
RECURSIVE Pow2(_)
Pow2(n) == IF n = 0 THEN 1 ELSE 2 * Pow2(n - 1)
CanonNum(x) == IF x.t = "big" /\ x.e <= 16 THEN [t |-> "num", h |-> (x.sg * Pow2(x.e) + x.o) * 4] ELSE x
RECURSIVE JEq(_, _)
JEq(a0, b0) ==
  LET a == CanonNum(a0)  b == CanonNum(b0) IN
  /\ a.t = b.t
  /\ CASE a.t = "null" -> TRUE
       [] a.t = "bool" -> a.b = b.b
       [] a.t = "num"  -> a.h = b.h
       [] a.t = "big"  -> a.e = b.e /\ a.sg = b.sg /\ a.o = b.o
       [] a.t = "str"  -> a.s = b.s
       [] a.t = "fmt"  -> a.f = b.f /\ FmtVar(a) = FmtVar(b)
       [] a.t = "arr"  -> /\ Len(a.a) = Len(b.a)
                          /\ \A i \in 1..Len(a.a) : JEq(a.a[i], b.a[i])
       [] a.t = "obj"  -> /\ ObjKeys(a) = ObjKeys(b)
                          /\ \A k \in ObjKeys(a) : JEq(ObjVal(a, k), ObjVal(b, k))
       [] OTHER -> FALSE

(* ---------- strings ---------- *)
\* Character ids and their width in UTF-8 bytes.  "a","b" ASCII, "e2" = U+00E9,
\* "w3" = U+4E16, "g4" = U+1F600 (harness/internal/abs/abs.go holds the same table).  Ids outside CharIds
\* ("pc" %, "bt" backtick, "qt" double quote, "bs" backslash, "nl" newline, "sp" space; all 1 byte) occur only
\* in hand-picked names and enum values, never in the enumerated string documents.
CharIds == {"a", "b", "e2", "w3", "g4"}
Width(c) == CASE c = "a" -> 1 [] c = "b" -> 1 [] c = "e2" -> 2 [] c = "w3" -> 3 [] c = "g4" -> 4
              [] OTHER -> 1
RECURSIVE ByteLen(_)
ByteLen(cs) == IF cs = <<>> THEN 0 ELSE Width(Head(cs)) + ByteLen(Tail(cs))

\* The closed pattern family (identical meaning in RE2 and ECMA-262):
\*   "p_a"   ^a        "p_b"   b$        "p_ab"  ^[ab]*$       "p_2"   ^.{2}$
\*   "p_pct" ^[ab%]*$  (= p_ab on the alphabet; a '%' in the pattern text)
\*   "p_esc" ^\x61+$   (one or more "a"; a backslash escape in the pattern text)
\*   "p_lit" ^ab$      (a literal anchored on both sides: equality)      "p_sub" ab   (a bare literal: substring)
PatIds == {"p_a", "p_b", "p_ab", "p_2", "p_pct", "p_esc", "p_lit", "p_sub"}
PatMatch(p, cs) ==
  CASE p = "p_a"  -> cs # <<>> /\ cs[1] = "a"
    [] p = "p_b"  -> cs # <<>> /\ cs[Len(cs)] = "b"
    [] p = "p_ab" -> \A i \in DOMAIN cs : cs[i] \in {"a", "b"}
    [] p = "p_2"  -> Len(cs) = 2
    [] p = "p_pct" -> \A i \in DOMAIN cs : cs[i] \in {"a", "b"}
    [] p = "p_esc" -> cs # <<>> /\ \A i \in DOMAIN cs : cs[i] = "a"
    [] p = "p_lit" -> cs = <<"a", "b">>
    [] p = "p_sub" -> \E i \in 1..(Len(cs) - 1) : cs[i] = "a" /\ cs[i + 1] = "b"
    [] p = "p_qt"  -> cs = <<"qt", "a", "qt">>
    [] p = "p_bt"  -> cs = <<"a", "bt", "b">>
    [] p = "p_cls" -> \E n \in 1..Len(cs) : /\ \A i \in 1..n : cs[i] \in {"a", "b", "d1", "us"}
                                           /\ \/ n = Len(cs)
                                              \/ n + 1 = Len(cs) /\ cs[n + 1] \in {"sp", "nl", "tb", "cr"}
    \* patterns whose first or last character is white space (the text must reach the check untrimmed)
    [] p = "p_tsp"  -> Len(cs) >= 2 /\ cs[1] = "a" /\ cs[2] = "sp"
    [] p = "p_lsp"  -> Len(cs) >= 2 /\ cs[Len(cs) - 1] = "sp" /\ cs[Len(cs)] = "b"
    [] p = "p_ws"   -> \E i \in DOMAIN cs : cs[i] = "sp"
    [] p = "p_ttab" -> Len(cs) >= 2 /\ cs[1] = "a" /\ cs[2] = "tb"
    [] OTHER -> TRUE
\* Patterns whose TEXT is hostile to the emitter (a double quote, a backtick, backslash classes): same meaning
\*   "p_qt"  ^"a"$      "p_bt"  ^a`b$      "p_cls" ^\w+\s?$
\* judged on hand-picked strings over the wider character set (HostStrings in MC_C06).
\*   "p_tsp" "^a "      "p_lsp" " b$"      "p_ws" " "      "p_ttab" "^a<TAB>"
HostPatIds == {"p_qt", "p_bt", "p_cls", "p_tsp", "p_lsp", "p_ws", "p_ttab"}

\* string formats the tool maps to dedicated Go types
Formats == {"date", "time", "date-time", "ipv4", "ipv6"}
JFmt(f) == [t |-> "fmt", f |-> f]
\* further canonical strings of a format, by variant id (texts in harness/internal/abs: years below 1000, a leap day,
\* midnight, a numeric zone offset, fractional seconds, the all-zero / all-one / loopback addresses)
JFmtV(f, v) == [t |-> "fmt", f |-> f, v |-> v]
FmtVariants(f) == CASE f = "date" -> {"y0987", "y0001", "leap"} [] f = "time" -> {"midnight", "lastsec"}
                    [] f = "date-time" -> {"offset", "frac", "y0987"} [] f = "ipv4" -> {"zero", "bcast"}
                    [] f = "ipv6" -> {"loop", "long"}

(* ---------- three-valued logic ---------- *)
Acc == "acc"  Rej == "rej"  Un == "un"
And3(S) == IF Rej \in S THEN Rej ELSE IF Un \in S THEN Un ELSE Acc
B3(b) == IF b THEN Acc ELSE Rej

(* ---------- schema access ---------- *)
Types(s)    == IF Has(s, "type") THEN s.type ELSE <<>>
Nullable(s) == \E i \in DOMAIN Types(s) : Types(s)[i] = "null"
NonNull(s)  == SelectSeq(Types(s), LAMBDA x : x # "null")
\* The one type the tool supports at a position: "any" when untyped or when more than one non-null
\* type is listed (the tool then uses interface{} without validation -- out of every property's scope).
Main(s) == IF Len(NonNull(s)) = 1 THEN NonNull(s)[1]
           ELSE IF Len(NonNull(s)) = 0 /\ Nullable(s) THEN "null" ELSE "any"

Props(s)  == IF Has(s, "properties") THEN s.properties ELSE <<>>
PropNames(s) == {Props(s)[i].k : i \in DOMAIN Props(s)}
PropSchema(s, k) == Props(s)[CHOOSE i \in DOMAIN Props(s) : Props(s)[i].k = k].s
Required(s) == IF Has(s, "required") THEN Rng(s.required) ELSE {}
\* a definition with none of type, properties, enum, allOf, anyOf: generateReferencedType maps a reference to it to
\* interface{} (a definition that is nothing but a $ref -- an alias -- or that only carries constraints).  Enum and
\* allOf / anyOf definitions were in this class before fixes 5108797 and 843f8be.
BareDef(t) == ~Has(t, "type") /\ ~Has(t, "properties") /\ ~Has(t, "enum") /\ ~Has(t, "allOf") /\ ~Has(t, "anyOf")

EnvHas(env, n) == \E i \in DOMAIN env : env[i].k = n
EnvGet(env, n) == env[CHOOSE i \in DOMAIN env : env[i].k = n].s

\* a branch of allOf/anyOf with a same-file reference replaced by its target
ResolveB(env, b) == IF Has(b, "ref") /\ EnvHas(env, b.ref.n) THEN EnvGet(env, b.ref.n) ELSE b

\* mergo-style merge of allOf/anyOf branches (see spec/ObjImpl.tla): @@ keeps the left value of a
\* keyword both sides set and adds the right side's other keywords
\* two schemas of one property: a keyword both set keeps the first value, except the property map (merged key by
\* key, recursively) and the required list (appended) -- mergo merges maps and, WithAppendSlice, appends slices
RECURSIVE MergeS(_, _)
RECURSIVE MergePropSeq(_, _)
MergePropSeq(pa, pb) ==
  [i \in DOMAIN pa |-> IF \E j \in DOMAIN pb : pb[j].k = pa[i].k
                       THEN [k |-> pa[i].k, s |-> MergeS(pa[i].s, pb[CHOOSE j \in DOMAIN pb : pb[j].k = pa[i].k].s)]
                       ELSE pa[i]]
  \o SelectSeq(pb, LAMBDA kv : \A i \in DOMAIN pa : pa[i].k # kv.k)
MergeS(a, b) ==
  [f \in DOMAIN a \cup DOMAIN b |->
     IF f \notin DOMAIN b THEN a[f]
     ELSE IF f \notin DOMAIN a THEN b[f]
     ELSE IF f = "properties" THEN MergePropSeq(a.properties, b.properties)
     ELSE IF f = "required" THEN a.required \o b.required
     ELSE a[f]]
RECURSIVE MergePropsK(_, _)
MergePropsK(acc, rest) ==
  IF rest = <<>> THEN acc
  ELSE LET ps == IF "properties" \in DOMAIN Head(rest) THEN Head(rest).properties ELSE <<>>
           upd == [i \in DOMAIN acc |->
                     IF \E j \in DOMAIN ps : ps[j].k = acc[i].k
                     THEN [k |-> acc[i].k, s |-> MergeS(acc[i].s, ps[CHOOSE j \in DOMAIN ps : ps[j].k = acc[i].k].s)]
                     ELSE acc[i]]
           new == SelectSeq(ps, LAMBDA kv : \A i \in DOMAIN acc : acc[i].k # kv.k)
       IN MergePropsK(upd \o new, Tail(rest))
RECURSIVE ConcatReqK(_)
ConcatReqK(bs) == IF bs = <<>> THEN <<>>
                  ELSE (IF "required" \in DOMAIN Head(bs) THEN Head(bs).required ELSE <<>>) \o ConcatReqK(Tail(bs))
MergedSchema(env, branches) ==
  LET rs == [i \in DOMAIN branches |-> ResolveB(env, branches[i])] IN
  LET withAddl == SelectSeq(rs, LAMBDA b : "additionalProperties" \in DOMAIN b) IN
  ("type" :> <<"object">>) @@ ("properties" :> MergePropsK(<<>>, rs)) @@ ("required" :> ConcatReqK(rs))
  @@ (IF withAddl = <<>> THEN <<>> ELSE "additionalProperties" :> withAddl[1].additionalProperties)   \* first wins

(* ---------- numbers ---------- *)
\* All comparisons on quarter units (U = 4: h stands for h/4; exact in float64 and in decimal text).  "big" landmark numerals are ordered by value: sg*2^e + o with
\* |o| far smaller than the gap between consecutive landmarks, so the order is lexicographic.
U == 4
BigKey(x) == IF x.t = "big" THEN <<x.sg * x.e, x.o>> ELSE <<0, x.h>>  \* e >= 7 for landmarks, 0 for small
NumLT(x, y) == LET a == BigKey(x) b == BigKey(y) IN a[1] < b[1] \/ (a[1] = b[1] /\ a[2] < b[2])
NumEQ(x, y) == BigKey(x) = BigKey(y)
NumLE(x, y) == NumLT(x, y) \/ NumEQ(x, y)
IsIntegral(x) == IF x.t = "big" THEN TRUE ELSE x.h % U = 0

ExclKind(s, k) == IF Has(s, k) THEN s[k].k ELSE "none"

\* deviation "IntBoundTruncated": on integer fields the generator truncates every boundary toward zero
TruncQ(v) == IF v.t # "num" THEN v ELSE IF v.h >= 0 THEN JNum((v.h \div U) * U) ELSE JNum(-(((-v.h) \div U) * U))
\* deviation "Float64Bounds" (validator side): schema constants are float64, and the boundary of an integer field
\* is emitted as int64(constant).  A constant within a few units of +2^63 or 2^64 rounds to 2^63 / 2^64, which does
\* not fit an int64: the conversion yields the most negative int64 (amd64), so the emitted comparison is against
\* -2^63.  Near -2^63 the offset is rounded away.
GoBound(v, D) ==
  IF "Float64Bounds" \in D /\ v.t = "big" /\ v.e >= 63
  THEN (IF v.sg = 1 THEN [t |-> "big", sg |-> -1, e |-> 63, o |-> 0] ELSE [v EXCEPT !.o = 0])
  ELSE v
NumOK(s, x, D) ==
  LET AsNum(v) == IF Main(s) # "integer" THEN v
                  ELSE GoBound(IF "IntBoundTruncated" \in D THEN TruncQ(v) ELSE v, D)
      minOK  == ~Has(s, "minimum") \/ NumLE(AsNum(s.minimum), x)
      maxOK  == ~Has(s, "maximum") \/ NumLE(x, AsNum(s.maximum))
      eminOK == CASE ExclKind(s, "exclusiveMinimum") = "n" -> NumLT(AsNum(s.exclusiveMinimum.h), x)
                  [] ExclKind(s, "exclusiveMinimum") = "b" ->
                       ~(s.exclusiveMinimum.b /\ Has(s, "minimum")) \/ NumLT(AsNum(s.minimum), x)
                  [] OTHER -> TRUE
      emaxOK == CASE ExclKind(s, "exclusiveMaximum") = "n" -> NumLT(x, AsNum(s.exclusiveMaximum.h))
                  [] ExclKind(s, "exclusiveMaximum") = "b" ->
                       ~(s.exclusiveMaximum.b /\ Has(s, "maximum")) \/ NumLT(x, AsNum(s.maximum))
                  [] OTHER -> TRUE
      multOK == ~Has(s, "multipleOf") \/ x.t = "big" \/ x.h % s.multipleOf = 0
  IN minOK /\ maxOK /\ eminOK /\ emaxOK /\ multOK

(* ---------- strings ---------- *)
StrLen(cs, D) == IF "LengthInBytes" \in D THEN ByteLen(cs) ELSE Len(cs)
StrOK(s, cs, D) ==
  /\ ~Has(s, "minLength") \/ StrLen(cs, D) >= s.minLength
  /\ \/ ~Has(s, "maxLength")
     \/ ("ZeroMaxIgnored" \in D /\ s.maxLength = 0)
     \/ StrLen(cs, D) <= s.maxLength
  /\ ~Has(s, "pattern") \/ PatMatch(s.pattern, cs)

(* ---------- arrays ---------- *)
NoLim == [on |-> FALSE]
\* lim: limits inherited from the outermost array of a directly nested array (deviation
\* "NestedArrayOuterLimits": the tool checks every nesting level against the field's own limits).
ArrLimits(s, lim, D) ==
  IF "NestedArrayOuterLimits" \in D /\ lim.on THEN lim
  ELSE [on |-> TRUE,
        min |-> IF Has(s, "minItems") THEN s.minItems ELSE 0,
        max |-> IF Has(s, "maxItems") THEN s.maxItems ELSE -1]
LenOK(l, n, D) ==
  /\ n >= l.min
  /\ l.max = -1 \/ ("ZeroMaxIgnored" \in D /\ l.max = 0) \/ n <= l.max

(* ---------- enum carrier (pkg/generator/schema_generator.go generateEnumType) ---------- *)
KindOf(d) == CASE d.t = "str" -> "string" [] d.t = "num" -> "float64" [] d.t = "bool" -> "bool" [] OTHER -> "iface"

Carrier(s) ==
  IF Len(Types(s)) = 1 THEN
       CASE s.type[1] = "string" -> "string" [] s.type[1] = "integer" -> "int" [] s.type[1] = "number" -> "float64"
         [] s.type[1] = "boolean" -> "bool" [] OTHER -> "iface"
  ELSE LET ks == {KindOf(s.enum[i]) : i \in DOMAIN s.enum} IN
       IF Cardinality(ks) = 1 THEN CHOOSE k \in ks : TRUE ELSE "iface"

\* the value `var v <carrier>` holds after json.Unmarshal of a JSON null
CarrierZero(c) == CASE c = "string" -> JStr(<<>>) [] c = "bool" -> JBool(FALSE) [] c = "iface" -> JNull [] OTHER -> JNum(0)

(* ---------- validity ---------- *)
\* ctx: "field" at a struct-field position (property of an object), "decl" when the schema is reached
\* as a declared type (definition or root), "elem" for array items of a declared array.
\* What encoding/json's typed decode alone accepts for a value of an anonymous Go type built from
\* schema s (no generated unmarshaler runs: no required / bounds / length checks) -- used by deviation
\* "DeclaredArrayElemUnvalidated": object items of a DECLARED array type become an anonymous struct.
RECURSIVE TypedOnly(_, _, _, _)
\* keys of the unit families that differ from a declared property name only by case
FoldsTo(k) == CASE k = "MY_FIELD" -> "my_field" [] OTHER -> k
\* every value of d has the JSON type its position declares (C17's scope excludes type errors)
RECURSIVE TypeClean(_, _, _)
TypeClean(env, s, d) ==
  IF d.t = "null" THEN TRUE
  ELSE IF Has(s, "ref") THEN (~EnvHas(env, s.ref.n) \/ TypeClean(env, EnvGet(env, s.ref.n), d))
  ELSE IF Has(s, "enum") /\ Len(NonNull(s)) # 1 THEN (\A i \in DOMAIN s.enum : s.enum[i].t \in {"str", "null"}) => d.t = "str"
  ELSE IF Has(s, "allOf") \/ Has(s, "anyOf") THEN d.t = "obj"
  ELSE LET T == Main(s) IN
    CASE T = "boolean" -> d.t = "bool"
      [] T = "string"  -> d.t \in {"str", "fmt"} /\ (Has(s, "format") /\ s.format \in Formats => d.t = "fmt" /\ d.f = s.format)
      [] T = "number"  -> d.t \in {"num", "big"}
      [] T = "integer" -> d.t \in {"num", "big"} /\ IsIntegral(d)
      [] T = "array"   -> d.t = "arr" /\ (Has(s, "items") => \A i \in DOMAIN d.a : TypeClean(env, s.items, d.a[i]))
      [] T = "object"  -> d.t = "obj" /\ (\A k \in PropNames(s) \cap ObjKeys(d) : TypeClean(env, PropSchema(s, k), ObjVal(d, k)))
                          /\ (Has(s, "additionalProperties") /\ s.additionalProperties.k = "s" =>
                                \A k \in ObjKeys(d) \ PropNames(s) : TypeClean(env, s.additionalProperties.s, ObjVal(d, k)))
      [] OTHER -> TRUE
RECURSIVE Valid(_, _, _, _, _, _)
TypedOnly(env, s, d, D) ==
  IF d.t = "null" THEN TRUE
  ELSE IF Has(s, "ref") \/ Has(s, "enum") \/ Has(s, "allOf") \/ Has(s, "anyOf") THEN TRUE
  ELSE LET T == Main(s) IN
    CASE T = "boolean" -> d.t = "bool"
      [] T = "string"  -> d.t \in {"str", "fmt"}
      [] T = "number"  -> d.t \in {"num", "big"}
      [] T = "integer" -> d.t \in {"num", "big"} /\ IsIntegral(d)
      [] T = "array"   -> d.t = "arr" /\ (Has(s, "items") =>
                              \A i \in DOMAIN d.a : TypedOnly(env, s.items, d.a[i], D))
      \* fields of the anonymous struct: object-typed properties are DECLARED types again (their own
      \* unmarshaler runs), everything else is decoded by type only
      [] T = "object"  ->
           /\ d.t = "obj"
           /\ (\A k \in PropNames(s) \cap ObjKeys(d) :
                 LET ps == PropSchema(s, k) IN
                 IF Main(ps) = "object" /\ ~Has(ps, "ref")
                 THEN Valid(env, ps, ObjVal(d, k), D, "field", NoLim) # Rej
                 ELSE TypedOnly(env, ps, ObjVal(d, k), D))
           \* a map type (no declared properties, typed additionalProperties): every member by type
           /\ ((Props(s) = <<>> /\ Has(s, "additionalProperties") /\ s.additionalProperties.k = "s") =>
                 (\A m \in ObjKeys(d) : TypedOnly(env, s.additionalProperties.s, ObjVal(d, m), D)))
      [] OTHER -> TRUE

RECURSIVE ValidObj(_, _, _, _)
RECURSIVE ValidRef(_, _, _, _)

\* generateStructType: additionalProperties next to properties become map[string]string / float64 / int /
\* bool / []any, anything else (object, several types, no type, a $ref) interface{}
AddlTyped(a, v, D) ==
  IF Has(a, "ref") \/ Len(Types(a)) # 1 THEN TRUE
  ELSE CASE a.type[1] = "string"  -> v.t \in {"str", "fmt"}
         [] a.type[1] = "number"  -> v.t \in {"num", "big"}
         [] a.type[1] = "integer" -> v.t \in {"num", "big"} /\ (IsIntegral(v) \/ "AddlIntTruncates" \in D)
         [] a.type[1] = "boolean" -> v.t = "bool"
         [] a.type[1] = "array"   -> v.t = "arr"
         [] OTHER -> TRUE

EnumOK(s, d) == \E i \in DOMAIN s.enum : JEq(s.enum[i], d)

Valid(env, s, d, D, ctx, lim) ==
  IF Has(s, "ref") THEN ValidRef(env, s, d, D)
  ELSE IF Has(s, "enum") THEN
         \* null where the enum does not list it: unspecified, like null at any non-nullable position
         \* deviation "YamlIntInMixedEnum" (YAML path only): yaml.v3 decodes an integral number into an
         \* interface{} carrier as int, which reflect.DeepEqual never equates with the float64 literal
         (IF "YamlIntInMixedEnum" \in D /\ Carrier(s) = "iface" /\ d.t = "num" /\ IsIntegral(d) THEN Rej
          ELSE IF EnumOK(s, d) THEN Acc ELSE IF d.t = "null" THEN Un ELSE Rej)
  ELSE IF Has(s, "allOf") THEN
         \* the tool merges the branches into one struct, so "declared" (for deviation
         \* RequiredUndeclaredIgnored) means declared by ANY branch
         LET names == UNION {PropNames(ResolveB(env, s.allOf[i])) : i \in DOMAIN s.allOf}
             dfl   == UNION {{k \in PropNames(ResolveB(env, s.allOf[i])) :
                                 Has(PropSchema(ResolveB(env, s.allOf[i]), k), "default")} : i \in DOMAIN s.allOf}
             br(i) == ResolveB(env, s.allOf[i]) @@ ("declared" :> names) @@ ("defaulted" :> dfl) @@ ("isbranch" :> TRUE)
         IN IF "AllOfFirstWins" \in D /\ d.t = "obj"
            THEN Valid(env, MergedSchema(env, s.allOf), d, D, "decl", NoLim)    \* deviation: the merged schema decides
            ELSE And3({Valid(env, br(i), d, D, "decl", NoLim) : i \in DOMAIN s.allOf}
                      \cup {IF d.t = "obj" THEN Acc ELSE IF d.t = "null" THEN Un ELSE Rej})
  ELSE IF Has(s, "anyOf") THEN
         LET rs == {Valid(env, s.anyOf[i] @@ ("isbranch" :> TRUE), d, D, "decl", NoLim) : i \in DOMAIN s.anyOf}
             any == IF Acc \in rs THEN Acc ELSE IF Un \in rs THEN Un ELSE Rej
         IN \* deviation "AnyOfMergedDecode": after the branch validators the document is decoded into ONE struct
            \* merged from all branches, whose field types (and nested types' own checks) all apply
            IF "AnyOfMergedDecode" \in D /\ any = Acc /\ d.t = "obj"
               /\ ~TypedOnly(env, MergedSchema(env, s.anyOf), d, D) THEN Rej
            ELSE any
  ELSE
  LET T == Main(s) IN
  IF d.t = "null" THEN
       IF Nullable(s) \/ T \in {"any", "null"} THEN Acc ELSE Un
  ELSE CASE T = "any"     -> \* untyped: object keywords still constrain values that are objects
                             \* (deviation "UntypedPropertiesUnvalidated": a schema without `type` is interface{} for the
                             \* tool even when it declares properties and a required list -- nothing is checked)
                             IF d.t = "obj" /\ (Has(s, "properties") \/ Has(s, "required"))
                                /\ ("UntypedPropertiesUnvalidated" \notin D \/ Has(s, "isbranch"))     \* (branches are merged into a struct)
                             THEN ValidObj(env, s, d, D) ELSE Acc
         [] T = "null"    -> Rej
         [] T = "boolean" -> B3(d.t = "bool")
         [] T = "string"  -> IF d.t \notin {"str", "fmt"} THEN Rej
                             ELSE IF Has(s, "format") /\ s.format \in Formats THEN
                                  \* only the canonical spelling of the same format is judged
                                  (IF d.t = "fmt" /\ d.f = s.format THEN Acc ELSE Un)
                             ELSE IF d.t = "fmt" THEN
                                  (IF Has(s, "minLength") \/ Has(s, "maxLength") \/ Has(s, "pattern") THEN Un ELSE Acc)
                             ELSE B3(StrOK(s, d.s, D))
         [] T = "number"  -> IF d.t \notin {"num", "big"} THEN Rej ELSE B3(NumOK(s, d, D))
         [] T = "integer" -> IF d.t \notin {"num", "big"} THEN Rej
                             ELSE IF ~IsIntegral(d) THEN
                                  \* deviation: mapstructure converts any float to int for additional properties
                                  (IF ctx = "addl" /\ "AddlIntTruncates" \in D THEN Acc ELSE Rej)
                             ELSE B3(NumOK(s, d, D))
         [] T = "array"   ->
              IF d.t # "arr" THEN Rej
              ELSE LET l == ArrLimits(s, lim, D)
                       \* deviation "DeclaredArrayNestedUnchecked": validators hang on struct fields and (since fix 9e8f58a)
                       \* on declared array types; an array that is neither -- an inner level of a declared array, a map
                       \* value -- has no limits checked
                       unchecked == "DeclaredArrayNestedUnchecked" \in D /\ ctx \notin {"field", "decl"}
                       items == IF Has(s, "items") THEN s.items ELSE [type |-> <<>>]
                       sub == IF ctx = "field" THEN "field" ELSE "elem"
                       \* deviation "ArrayItemConstraintsIgnored": validators exist per struct FIELD (and per declared
                       \* primitive type); a primitive items schema written inline only picks the element's Go type,
                       \* its bounds / length / pattern are never checked
                       bare == /\ "ArrayItemConstraintsIgnored" \in D /\ ~Has(items, "ref") /\ ~Has(items, "enum")
                               /\ Main(items) \in {"integer", "number", "string"}
                               /\ ~(Has(items, "format") /\ items.format \in Formats)
                   IN And3({B3(unchecked \/ LenOK(l, Len(d.a), D))}
                           \cup {IF bare /\ d.a[i].t # "null" THEN B3(TypedOnly(env, items, d.a[i], D))
                                 ELSE Valid(env, items, d.a[i], D, sub,
                                            IF Main(items) = "array" /\ ~Has(items, "ref") THEN l ELSE NoLim)
                                 : i \in DOMAIN d.a})
         [] T = "object"  -> IF d.t # "obj" THEN Rej
                             ELSE IF ctx = "elem" /\ "DeclaredArrayElemUnvalidated" \in D
                                  THEN B3(TypedOnly(env, s, d, D))
                             ELSE ValidObj(env, s, d, D)
         [] OTHER -> Un

ValidRef(env, s, d, D) ==
  IF ~EnvHas(env, s.ref.n) THEN Un
  ELSE LET t == EnvGet(env, s.ref.n) IN
       \* deviation: a definition that says nothing about its own shape (see BareDef) is referenced as interface{}
       IF "BareDefUnvalidated" \in D /\ BareDef(t) THEN Acc
       \* deviation: a nullable primitive definition is declared as `type N *int` -- a pointer type cannot
       \* carry an unmarshaler, so its bounds / length / pattern are never checked
       ELSE IF "NullableDefUnvalidated" \in D /\ Nullable(t) /\ Main(t) \in {"integer", "number", "string"}
               /\ ~Has(t, "enum") /\ ~(Has(t, "format") /\ t.format \in Formats)
            THEN (IF d.t = "null" THEN Acc ELSE B3(TypedOnly(env, t, d, D)))
       ELSE Valid(env, t, d, D, "decl", NoLim)

ValidObj(env, s, d, D) ==
  LET declared == IF Has(s, "declared") THEN s.declared ELSE PropNames(s)
      req == {k \in Required(s) :
                /\ ~("RequiredUndeclaredIgnored" \in D /\ k \notin declared)
                /\ ~(k \in PropNames(s) /\ Has(PropSchema(s, k), "default"))
                /\ ~(Has(s, "defaulted") /\ k \in s.defaulted)}   \* default given by a sibling allOf branch
      \* deviation "TagInvalidKeyUnbound", second face: the required check reads raw["<name>"] from an INTERPRETED string
      \* literal, so a backslash in the name starts an escape: the key that is looked up is another one and a
      \* required property with such a name is reported missing whatever the document holds
      reqOK == IF "TagInvalidKeyUnbound" \in D /\ "e\\f" \in req THEN Rej ELSE B3(\A k \in req : ObjHas(d, k))
      \* a null for a property that declares a default counts as absent (C09); deviation
      \* "EnumNullDefault": an enum-typed field with a default is a value field whose UnmarshalJSON is
      \* called with null and rejects it (the zero value is not a listed value)
      propsOK == {LET ps == PropSchema(s, k)  v == ObjVal(d, k) IN
                  IF v.t = "null" /\ Has(ps, "default") THEN
                       (IF "EnumNullDefault" \in D /\ Has(ResolveB(env, ps), "enum")
                           /\ ~EnumOK(ResolveB(env, ps), CarrierZero(Carrier(ResolveB(env, ps)))) THEN Rej ELSE Acc)
                  ELSE Valid(env, ps, v, D, "field", NoLim)
                    : k \in PropNames(s) \cap ObjKeys(d)}
      extra == ObjKeys(d) \ PropNames(s)
      \* deviation "CaseInsensitiveKeyBinding": encoding/json also binds a key that differs from a declared
      \* name only by case to that field, so its value is decoded (and type-checked) as that property
      foldOK == IF "CaseInsensitiveKeyBinding" \in D
                THEN {Valid(env, PropSchema(s, FoldsTo(k)), ObjVal(d, k), D, "field", NoLim)
                        : k \in {e \in extra : FoldsTo(e) \in PropNames(s)}}
                ELSE {}
      addl == IF Has(s, "additionalProperties") THEN s.additionalProperties ELSE [k |-> "b", b |-> TRUE]
      extraOK == CASE addl.k = "b" -> IF extra = {} \/ addl.b THEN {Acc} ELSE {Un}
                   \* additionalProperties:false is not enforced by the tool and no listed property
                   \* demands it (C02 speaks only of objects that allow them) => unspecified
                   \* deviation "AddlValuesTypedOnly": next to declared properties the values of typed
                   \* additionalProperties are only decoded into map[string]<primitive> (mapstructure):
                   \* constraints, element types, enum lists and $ref targets are ignored
                   [] addl.k = "s" /\ "AddlValuesTypedOnly" \in D /\ Props(s) # <<>> ->
                        {IF ObjVal(d, k).t = "null" THEN Valid(env, addl.s, ObjVal(d, k), D, "addl", NoLim)
                         ELSE B3(AddlTyped(addl.s, ObjVal(d, k), D)) : k \in extra}
                   \* ("addl": collected through mapstructure next to declared properties; "mapval": the value type of a
                   \* Go map decoded by encoding/json itself)
                   [] addl.k = "s" /\ ~("AddlValuesTypedOnly" \in D /\ Props(s) # <<>>) ->
                        {Valid(env, addl.s, ObjVal(d, k), D, IF Props(s) # <<>> THEN "addl" ELSE "mapval", NoLim) : k \in extra}
  IN And3({reqOK} \cup propsOK \cup extraOK \cup foldOK)

(* ---------- the environment of a unit ---------- *)
\* single-document units carry their definitions in defs; multi-document units (C10) add legacy definitions and
\* further files ([path, name, s, defs, yaml]): every file root and every definition is one named entry
RECURSIVE FilesEnv(_)
FilesEnv(fs) == IF fs = <<>> THEN <<>> ELSE <<[k |-> Head(fs).name, s |-> Head(fs).s]>> \o Head(fs).defs \o FilesEnv(Tail(fs))
UnitEnv(un) == un.defs \o (IF Has(un, "ldefs") THEN un.ldefs ELSE <<>>) \o (IF Has(un, "files") THEN FilesEnv(un.files) ELSE <<>>)

(* ---------- which deviations can matter for a unit (attribution only) ---------- *)
\* The trace specifications attribute a known-wrong observation to the deviations that explain it by
\* re-evaluating Valid without each deviation.  A deviation can only change the verdict of a unit whose
\* schemas mention one of the keywords its switch looks at; restricting the candidates to those keeps the
\* attribution cost independent of the number of recorded findings.  (The CLASS of an event never depends
\* on this: it compares the observation with Valid(.., Devs) as a whole.)
RECURSIVE KeysOf(_)
KeysOf(s) ==
  DOMAIN s
  \cup (IF Has(s, "properties") THEN UNION {KeysOf(s.properties[i].s) : i \in DOMAIN s.properties} ELSE {})
  \cup (IF Has(s, "items") THEN KeysOf(s.items) ELSE {})
  \cup (IF Has(s, "additionalProperties") /\ s.additionalProperties.k = "s" THEN KeysOf(s.additionalProperties.s) ELSE {})
  \cup (IF Has(s, "allOf") THEN UNION {KeysOf(s.allOf[i]) : i \in DOMAIN s.allOf} ELSE {})
  \cup (IF Has(s, "anyOf") THEN UNION {KeysOf(s.anyOf[i]) : i \in DOMAIN s.anyOf} ELSE {})
EnvKeys(env) == UNION {KeysOf(env[i].s) : i \in DOMAIN env}
DevNeeds(x) ==
  CASE x = "LengthInBytes" -> {"minLength", "maxLength"}
    [] x = "ZeroMaxIgnored" -> {"maxLength", "maxItems"}
    [] x \in {"NestedArrayOuterLimits", "DeclaredArrayNestedUnchecked"} -> {"minItems", "maxItems"}
    [] x \in {"DeclaredArrayElemUnvalidated", "ArrayItemConstraintsIgnored"} -> {"items"}
    [] x = "RequiredUndeclaredIgnored" -> {"required"}
    [] x = "UntypedPropertiesUnvalidated" -> {"properties", "required"}
    [] x = "CrossBranchLocalRefRebinds" -> {"crossbranchonly"}      \* recorded with its witness only: never a candidate
    [] x \in {"AddlIntTruncates", "AddlValuesTypedOnly", "AddlKeyEqualsFieldNameDropped", "AddlEmptyKeyDropped",
              "UntypedAddlNotCollected", "AddlMapDefaultDropped", "AddlNullPanics"} -> {"additionalProperties"}
    [] x \in {"Float64Bounds", "IntBoundTruncated"} -> {"minimum", "maximum", "exclusiveMinimum", "exclusiveMaximum"}
    [] x \in {"BareDefUnvalidated", "NullableDefUnvalidated", "SameNameDefsCollapse"} -> {"ref"}
    [] x = "TagInvalidKeyUnbound" -> {"properties"}
    [] x = "NullableObjectIsValueStruct" -> {"type"}
    [] x \in {"EnumNullDefault", "DefaultOnNullableScalar", "DefaultOnFormat", "DefaultOnWrappedEnum", "DefaultOnNestedArray",
              "DefaultOnObjectWithOptionalFields"} -> {"default"}
    [] x \in {"AllOfFirstWins", "SizedSharedNodeRevisited"} -> {"allOf"}
    [] x \in {"AnyOfMergedDecode", "AnyOfRefBranchWithoutValidators", "AnyOfUntypedBranchNoCompile"} -> {"anyOf"}
    [] x = "YamlIntInMixedEnum" -> {"enum"}
    [] OTHER -> {"type", "ref", "enum", "allOf", "anyOf"}          \* anything else: always a candidate
CandDevs(keys, D) == {x \in D : DevNeeds(x) \cap keys # {}}

(* ---------- decoded values (C02, C08, C09) ---------- *)
\* "Empty" values are the ones Go's omitempty drops when marshalling
NonEmpty(d) == ~( d.t = "null" \/ (d.t = "bool" /\ ~d.b) \/ (d.t = "num" /\ d.h = 0)
                \/ (d.t = "str" /\ d.s = <<>>) \/ (d.t = "arr" /\ d.a = <<>>) \/ (d.t = "obj" /\ d.o = <<>>) )

\* does the generated struct carry an AdditionalProperties field (explicit keyword that is not `false`)?
\* as-is: does the struct of s get an unmarshaler of its own?  (a required property, a default, or any constraint the
\* generator turns into a validator on a direct property; used by the deviation UntypedAddlNotCollected only)
ValidatorKeys == {"default", "minLength", "maxLength", "pattern", "minimum", "maximum", "exclusiveMinimum", "exclusiveMaximum",
                  "multipleOf", "minItems", "maxItems"}
GetsUnmarshaler(s) ==
  \E i \in DOMAIN Props(s) :
     \/ Props(s)[i].k \in Required(s)
     \/ \E k \in ValidatorKeys : Has(Props(s)[i].s, k)
     \/ (Has(Props(s)[i].s, "type") /\ Props(s)[i].s.type = <<"null">>)
CollectsAddl(s) == Has(s, "additionalProperties") /\ ~(s.additionalProperties.k = "b" /\ ~s.additionalProperties.b)
IsStruct(s) == Main(s) = "object" /\ Props(s) # <<>>

\* Decoded(env, s, d, v, D): the reflective dump v of the destination faithfully holds document d decoded
\* under schema s -- every declared property value in the field bound to that exact name, array
\* elements in order, enum values bare, defaults for absent/null properties, and exactly the
\* undeclared keys in the additional-properties map.  d is assumed valid under s.
\* Go field names of the property names used by the unit families (the general rule is spec/Names.tla)
GoFieldName(k) == CASE k = "my_field" -> "MyField" [] k = "p" -> "P" [] k = "x" -> "X" [] k = "k" -> "K" [] OTHER -> "?"
\* deviation "TagInvalidKeyUnbound": encoding/json takes a tag name only if it consists of letters, digits and
\* !#$%&()*+-./:;<=>?@[]^_{|}~ and space; for any other name (apostrophe, tab, comma, backslash, non-ASCII
\* punctuation) the tag is ignored and the key is matched against the Go field name instead: the property is
\* never filled.  The names the unit families use (MC_C14S, family tagchars):
TagBadNames == {"don't", "tab\tkey", "i,j", "e\\f", "g\nh", "a\"b"}
\* the dump of a Go zero value: nil, 0, "", false, a struct of zero values
RECURSIVE ZeroValue(_)
ZeroValue(x) == CASE x.t = "null" -> TRUE
                  [] x.t = "num" -> x.h = 0
                  [] x.t = "str" -> x.s = <<>>
                  [] x.t = "bool" -> ~x.b
                  [] x.t = "obj" -> \A i \in DOMAIN x.o : ZeroValue(x.o[i].v)
                  [] x.t = "arr" -> x.a = <<>>
                  [] OTHER -> FALSE
RECURSIVE Decoded(_, _, _, _, _)
StripDefaults(s) ==
  IF Has(s, "properties")
  THEN [s EXCEPT !.properties = [i \in DOMAIN @ |-> [k |-> @[i].k, s |-> [f \in DOMAIN @[i].s \ {"default"} |-> @[i].s[f]]]]]
  ELSE s
Decoded(env, s, d, v, D) ==
  IF Has(s, "ref") THEN
       (\/ ~EnvHas(env, s.ref.n)
        \/ LET t == EnvGet(env, s.ref.n) IN
           \* deviation BareDefUnvalidated: the field is an interface{} that holds the document as it is
           IF "BareDefUnvalidated" \in D /\ BareDef(t) THEN JEq(v, d)
           \* object items of a declared array are an anonymous struct: no unmarshaler, so no defaults
           ELSE IF "DeclaredArrayElemUnvalidated" \in D /\ Main(t) = "array" /\ Has(t, "items")
           THEN Decoded(env, [t EXCEPT !.items = StripDefaults(@)], d, v, D)
           ELSE Decoded(env, t, d, v, D))
  \* null where the schema lists null as a type: the destination stays nil (C03: "yields an absent/nil value")
  \* deviation "NullableObjectIsValueStruct": a nullable OBJECT is a pointer only as an optional property; as a
  \* required property, as array items and as map values it is the struct itself, and null leaves its zero value,
  \* which marshals as {} (pinned by golden validation/requiredFields/requiredNullable)
  ELSE IF d.t = "null" THEN
       (Has(s, "type") /\ Nullable(s) /\ ~Has(s, "default") /\ ~Has(s, "enum")) =>
          \/ v.t = "null"
          \/ "NullableObjectIsValueStruct" \in D /\ Main(s) = "object" /\ ZeroValue(v)
  ELSE IF Has(s, "enum") THEN JEq(v, d)
  ELSE IF Has(s, "allOf") \/ Has(s, "anyOf") THEN TRUE           \* judged by C11
  ELSE IF IsStruct(s) THEN
       /\ v.t = "obj"
       /\ \A k \in PropNames(s) :
             LET ps == PropSchema(s, k)
                 given == ObjHas(d, k) /\ ObjVal(d, k).t # "null"
             IN IF given /\ "TagInvalidKeyUnbound" \in D /\ k \in TagBadNames THEN
                     \* the field keeps its zero value: nil for an optional (pointer) field, 0 for a required one
                     ~ObjHas(v, k) \/ ObjVal(v, k).t = "null" \/ JEq(ObjVal(v, k), JNum(0))
                ELSE IF given THEN
                     /\ ObjHas(v, k)
                     /\ \/ Decoded(env, ps, ObjVal(d, k), ObjVal(v, k), D)
                        \* deviation CaseInsensitiveKeyBinding: a key differing only by case overwrites the field
                        \/ /\ "CaseInsensitiveKeyBinding" \in D
                           /\ \E k2 \in ObjKeys(d) \ PropNames(s) :
                                 FoldsTo(k2) = k /\ Decoded(env, ps, ObjVal(d, k2), ObjVal(v, k), D)
                ELSE IF Has(ps, "default") THEN
                       \* deviation "AddlMapDefaultDropped": defaultPropertyValue replaces the default of a
                       \* typed additional-properties map by an empty map
                       IF "AddlMapDefaultDropped" \in D /\ Main(ps) = "object" /\ Props(ps) = <<>>
                          /\ Has(ps, "additionalProperties") /\ ps.additionalProperties.k = "s"
                       THEN ObjHas(v, k) /\ ObjVal(v, k).t = "obj" /\ ObjVal(v, k).o = <<>>
                       ELSE ObjHas(v, k) /\ JEq(ObjVal(v, k), ps.default)
                \* an explicit null: judged by the rule for null above (through references too)
                ELSE IF ObjHas(d, k) THEN Decoded(env, ps, ObjVal(d, k), IF ObjHas(v, k) THEN ObjVal(v, k) ELSE JNull, D)
                ELSE TRUE
       /\ CollectsAddl(s) =>
             \* deviation "AddlKeyEqualsFieldNameDropped": the generated code deletes st.Field(i).Name from the
             \* raw map, so an undeclared key that equals the Go NAME of a declared field is lost
             \* deviation "AddlEmptyKeyDropped": the AdditionalProperties field itself has no json tag, so
             \* `delete(raw, "")` removes the key ""
             \* deviation "UntypedAddlNotCollected": for additionalProperties true / {} (no type) nothing fills the
             \* field unless the struct gets an unmarshaler for another reason (since fix 43222c6 that unmarshaler compiles
             \* and collects the keys like the typed one)
             LET untyped == s.additionalProperties.k = "b" \/ Types(s.additionalProperties.s) = <<>>
                 extra == IF "UntypedAddlNotCollected" \in D /\ untyped /\ ~GetsUnmarshaler(s) THEN {}
                          ELSE ((ObjKeys(d) \ PropNames(s)) \
                                (IF "AddlKeyEqualsFieldNameDropped" \in D THEN {GoFieldName(k) : k \in PropNames(s)} ELSE {}))
                               \ (IF "AddlEmptyKeyDropped" \in D THEN {""} ELSE {}) IN
             /\ ObjHas(v, "AdditionalProperties")
             /\ LET m == ObjVal(v, "AdditionalProperties") IN
                IF extra = {} THEN m.t \in {"null", "obj"} /\ (m.t = "obj" => m.o = <<>>)
                ELSE m.t = "obj" /\ ObjKeys(m) = extra /\ \A k \in extra : JEq(ObjVal(m, k), ObjVal(d, k))
  ELSE IF Main(s) = "object" THEN        \* no declared properties: a Go map; typed values hold their documents in turn
       d.t = "obj" => (v.t = "obj" /\ ObjKeys(v) = ObjKeys(d)
                       /\ \A k \in ObjKeys(d) :
                             IF Has(s, "additionalProperties") /\ s.additionalProperties.k = "s"
                             THEN Decoded(env, s.additionalProperties.s, ObjVal(d, k), ObjVal(v, k), D)
                             ELSE JEq(ObjVal(v, k), ObjVal(d, k)))
  ELSE IF Main(s) = "array" THEN
       /\ v.t = "arr" /\ Len(v.a) = Len(d.a)
       /\ \A i \in DOMAIN d.a : Decoded(env, IF Has(s, "items") THEN s.items ELSE [type |-> <<>>], d.a[i], v.a[i], D)
  ELSE JEq(v, d)

\* Reproduced(env, s, d, o): the re-marshalled JSON o reproduces every non-empty declared value of d
RECURSIVE Reproduced(_, _, _, _, _)
Reproduced(env, s, d, o, D) ==
  IF Has(s, "ref") THEN (~EnvHas(env, s.ref.n) \/ Reproduced(env, EnvGet(env, s.ref.n), d, o, D))
  ELSE IF ~NonEmpty(d) THEN TRUE
  ELSE IF Has(s, "enum") THEN JEq(o, d)
  ELSE IF Has(s, "allOf") \/ Has(s, "anyOf") THEN TRUE
  ELSE IF IsStruct(s) THEN
       o.t = "obj" /\ \A k \in PropNames(s) \cap ObjKeys(d) :
           (NonEmpty(ObjVal(d, k)) /\ ~("TagInvalidKeyUnbound" \in D /\ k \in TagBadNames)) =>
             /\ ObjHas(o, k)
             /\ \/ Reproduced(env, PropSchema(s, k), ObjVal(d, k), ObjVal(o, k), D)
                \/ /\ "CaseInsensitiveKeyBinding" \in D
                   /\ \E k2 \in ObjKeys(d) \ PropNames(s) :
                         FoldsTo(k2) = k /\ Reproduced(env, PropSchema(s, k), ObjVal(d, k2), ObjVal(o, k), D)
  ELSE IF Main(s) = "array" THEN
       o.t = "arr" /\ Len(o.a) = Len(d.a)
       /\ \A i \in DOMAIN d.a : Reproduced(env, IF Has(s, "items") THEN s.items ELSE [type |-> <<>>], d.a[i], o.a[i], D)
  ELSE IF Main(s) = "object" /\ d.t = "obj" /\ Has(s, "additionalProperties") /\ s.additionalProperties.k = "s" THEN
       \* a Go map with typed values: every non-empty member is reproduced
       o.t = "obj" /\ \A k \in ObjKeys(d) :
           NonEmpty(ObjVal(d, k)) => (ObjHas(o, k) /\ Reproduced(env, s.additionalProperties.s, ObjVal(d, k), ObjVal(o, k), D))
  ELSE JEq(o, d)

=============================================================================
