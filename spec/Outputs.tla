------------------------------ MODULE Outputs ------------------------------
(***************************************************************************)
(* STATE MACHINE of a generation run over several schema files through the    *)
(* library API (pkg/generator/generate.go DoFile / addFile /                   *)
(* findOutputFileForSchemaID / beginOutput; schema_generator.go                 *)
(* generateReferencedType for file references; loaders.go CachedLoader).        *)
(*   DoFile(f)     the user's next argument: load (cache), route to the output    *)
(*                 mapped to its id, declare its types                            *)
(*   Follow(f, g)  f references g: load g (cache), route g to ITS output,           *)
(*                 declare g's types there (once)                                   *)
(* State: pending (arguments not yet processed, in order), outs (output file ->      *)
(* [pkg, types]), declared (files whose types have been emitted), failed.             *)
(* C20: at the end every reachable file's types are in exactly one output -- the      *)
(* one mapped to its id, under the mapped package; two ids mapped to one file with     *)
(* different packages fail the run; the final state does not depend on the order of    *)
(* the arguments nor on unrelated extra files.                                          *)
(* Deviation "PackageWithoutOutputLost": --schema-package for an id without             *)
(* --schema-output routes that schema to the output file "" which Sources() skips.       *)
(***************************************************************************)
EXTENDS Integers, Sequences, FiniteSets, TLC

CONSTANTS Files,        \* set of file names
          RefsOf,       \* [Files -> SUBSET Files]
          TypesOf,      \* [Files -> set of type names]
          OutOf, PkgOf, \* [Files -> output file / package] after applying mappings and defaults ("" = no output name)
          Orders,       \* set of argument sequences to explore
          Common,       \* type names EVERY file declares in its own output (same-named definitions of different documents)
          D

VARIABLES args, pending, stack, outs, declared, failed      \* args: the argument list of this run (history)
vars == <<args, pending, stack, outs, declared, failed>>

Init == /\ args \in Orders /\ pending = args /\ stack = <<>> /\ outs = <<>> /\ declared = {} /\ failed = FALSE

Conflict(f) == \E o \in DOMAIN outs : o = OutOf[f] /\ outs[o].pkg # PkgOf[f]
Route(f) ==   \* beginOutput + declarations of f's types
  IF OutOf[f] \in DOMAIN outs
  THEN [outs EXCEPT ![OutOf[f]].types = @ \cup TypesOf[f] \cup Common]
  ELSE outs @@ (OutOf[f] :> [pkg |-> PkgOf[f], types |-> TypesOf[f] \cup Common])

\* process one file: the user's next argument, or the next reference on the stack (depth first)
Step == /\ ~failed
        /\ \/ /\ stack # <<>>
              /\ LET f == Head(stack) IN
                 IF f \in declared THEN stack' = Tail(stack) /\ UNCHANGED <<args, pending, outs, declared, failed>>
                 ELSE IF Conflict(f) THEN failed' = TRUE /\ UNCHANGED <<args, pending, stack, outs, declared>>
                 ELSE /\ outs' = Route(f) /\ declared' = declared \cup {f}
                      /\ stack' = (CHOOSE s \in [1..Cardinality(RefsOf[f]) -> RefsOf[f]] :
                                      \A i, j \in DOMAIN s : i # j => s[i] # s[j]) \o Tail(stack)
                      /\ UNCHANGED <<args, pending, failed>>
           \/ /\ stack = <<>> /\ pending # <<>>
              /\ stack' = <<Head(pending)>> /\ pending' = Tail(pending)
              /\ UNCHANGED <<args, outs, declared, failed>>
Done == (failed \/ (stack = <<>> /\ pending = <<>>)) /\ UNCHANGED vars
Next == Step \/ Done
Spec == Init /\ [][Next]_vars

Finished == ~failed /\ stack = <<>> /\ pending = <<>>
\* what Sources() returns: outputs with an empty file name are skipped (the deviation loses them silently;
\* in the intended design an empty output name cannot arise: the default output applies)
Emitted == [o \in {x \in DOMAIN outs : x # ""} |-> outs[o]]

RECURSIVE Reach(_)
Reach(S) == LET T == S \cup UNION {RefsOf[f] : f \in S} IN IF T = S THEN S ELSE Reach(T)
Args(order) == {order[i] : i \in DOMAIN order}

\* ---- C20 ----
EmittedOnce == Finished => \A f \in declared : \A t \in TypesOf[f] :
                 Cardinality({o \in DOMAIN outs : t \in outs[o].types}) = 1
Placement   == Finished => \A f \in declared : OutOf[f] \in DOMAIN outs /\ TypesOf[f] \subseteq outs[OutOf[f]].types
                                             /\ outs[OutOf[f]].pkg = PkgOf[f]
NothingLost == Finished => \A f \in declared : OutOf[f] # ""
ConflictFails == (\E f, g \in Files : f # g /\ OutOf[f] = OutOf[g] /\ PkgOf[f] # PkgOf[g] /\ {f, g} \subseteq declared) => failed
=============================================================================
