------------------------------ MODULE EnumImpl ------------------------------
(***************************************************************************)
(* IMPLEMENTATION-SHAPED model of enum types                                 *)
(*   pkg/generator/schema_generator.go generateEnumType                      *)
(*   pkg/generator/json_formatter.go   enumUnmarshal / enumMarshal           *)
(* Carrier: the Go type `var v` is declared with.  A single declared `type`  *)
(* gives string/int/float64/bool (null: interface{} wrapped in a struct);    *)
(* otherwise the carrier is inferred from the listed values (all of one      *)
(* kind: that kind; nulls or mixed kinds: interface{} wrapped in a struct).   *)
(* UnmarshalJSON: json.Unmarshal into the carrier (a JSON null leaves the     *)
(* zero value), then reflect.DeepEqual against each listed literal            *)
(* (enumValues_<Type>, dumped by litter: 1.0 for float64, 1 for the int       *)
(* coerced values of integer-typed enums).                                    *)
(***************************************************************************)
EXTENDS JV

\* json.Unmarshal(value, &v): [ok, v] -- v is the value later compared (zero value after a null)
CarrierDecode(c, d) ==
  CASE c = "iface"   -> [ok |-> TRUE, v |-> d]
    [] d.t = "null"  -> [ok |-> TRUE, v |-> CASE c = "string" -> JStr(<<>>) [] c = "bool" -> JBool(FALSE) [] OTHER -> JNum(0)]
    [] c = "string"  -> [ok |-> d.t = "str", v |-> d]
    [] c = "bool"    -> [ok |-> d.t = "bool", v |-> d]
    [] c = "float64" -> [ok |-> d.t = "num", v |-> d]
    [] c = "int"     -> [ok |-> d.t = "num" /\ IsIntegral(d), v |-> d]

\* UnmarshalJSON of the enum type on a JSON value d (null included: it IS called for value-typed fields)
EnumUnmarshalAccepts(s, d) ==
  LET r == CarrierDecode(Carrier(s), d) IN
  r.ok /\ \E i \in DOMAIN s.enum : JEq(s.enum[i], r.v)

\* string carrier: one typed constant per listed string
EnumConsts(s) == IF Carrier(s) = "string" THEN {s.enum[i] : i \in {j \in DOMAIN s.enum : s.enum[j].t = "str"}} ELSE {}
=============================================================================
