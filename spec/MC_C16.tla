------------------------------ MODULE MC_C16 ------------------------------
(* C16: enumerates the option lattice (spec/Options.tla): 192 pairs of option sets that differ   *)
(* in exactly one option; checks the table; emits the pairs for the harness.                     *)
EXTENDS Options, Json
CONSTANT UnitsFile
VARIABLES p
Init == p \in {x \in Pairs : ValidPair(x)}
Next == UNCHANGED p
Spec == Init /\ [][Next]_p
Inv == TableOK
Emit == UnitsFile = "" \/ PrintT("PAIR " \o ToJson([base |-> p[1], opt |-> p[2], equal |-> MustEqual(p[2]), with |-> With(p[2]), without |-> Without(p[2])]))
=============================================================================
