------------------------------ MODULE MC_C14S ------------------------------
(***************************************************************************)
(* C14, second part: sibling properties that collide after normalisation,     *)
(* schema types that collide on their Go type name, and --capitalization       *)
(* lists.  Every unit must compile (distinct identifiers) and every JSON key    *)
(* must land in the field bound to that exact key (Judge = "value": the          *)
(* reflective dump is keyed by the json tag).                                     *)
(***************************************************************************)
EXTENDS JV, Json, SequencesExt

CONSTANTS UnitsFile, Devs

VARIABLES fam, par, picked
vars == <<fam, par, picked>>

Int_ == [type |-> <<"integer">>]
Str_ == [type |-> <<"string">>]
Obj(ps, r) == ("type" :> <<"object">>) @@ ("properties" :> ps) @@ (IF r = <<>> THEN <<>> ELSE "required" :> r)

(* ---- sibling sets ---- *)
Pool == <<"foo", "Foo", "FOO", "foo_", "foo-", "f-oo", "fOO", "foo_2", "Foo2", "foo bar", "fooBar", "foo_bar", "FooBar_2">>
Subsets == {S \in SUBSET (1..Len(Pool)) : Cardinality(S) \in {2, 3}}
SibUnit(S) ==
  LET ks == SetToSeq(S)
      ps == [i \in DOMAIN ks |-> [k |-> Pool[ks[i]], s |-> Int_]]
      doc == JObj([i \in DOMAIN ks |-> KV(Pool[ks[i]], JNum(4 * (i + 1)))])
      one(i) == JObj(<<KV(Pool[ks[i]], JNum(4 * (i + 7)))>>)
  IN [prop |-> "C14", fam |-> "siblings", schema |-> Obj(ps, <<>>), defs |-> <<>>,
      docs |-> <<doc>> \o [i \in DOMAIN ks |-> one(i)], nobuild |-> <<>>]

(* ---- properties whose names map to the field the struct adds for its additional properties ---- *)
ApUnit ==
  \* ... and to the methods the struct gets (a: a bound, so that there IS an unmarshaler)
  LET ps == <<[k |-> "a", s |-> ("type" :> <<"integer">>) @@ ("minimum" :> JNum(0))], [k |-> "additionalProperties", s |-> Int_],
              [k |-> "additional_properties", s |-> Int_], [k |-> "unmarshalJSON", s |-> Int_], [k |-> "unmarshal_yaml", s |-> Int_]>>
      sch == Obj(ps, <<>>) @@ ("additionalProperties" :> [k |-> "s", s |-> Int_])
  IN [prop |-> "C14", fam |-> "apfield", schema |-> sch, defs |-> <<>>,
      docs |-> << JObj(<<KV("a", JNum(4)), KV("additionalProperties", JNum(8)), KV("additional_properties", JNum(12))>>),
                  JObj(<<KV("a", JNum(4)), KV("unmarshalJSON", JNum(24)), KV("unmarshal_yaml", JNum(28))>>),
                  JObj(<<KV("a", JNum(4)), KV("additionalProperties", JNum(8)), KV("additional_properties", JNum(12)), KV("extra", JNum(16))>>),
                  JObj(<<KV("additional_properties", JNum(12)), KV("other", JNum(20))>>) >>,
      nobuild |-> <<>>]

(* ---- a definition whose name is the root type's name ---- *)
RootNameUnit ==
  [prop |-> "C14", fam |-> "rootname", roottype |-> "RootJson_1",
   schema |-> Obj(<<[k |-> "top", s |-> ("type" :> <<"integer">>) @@ ("minimum" :> JNum(4))],
                    [k |-> "x", s |-> [ref |-> [k |-> "defs", n |-> "RootJson"]]]>>, <<"top">>),
   defs |-> <<[k |-> "RootJson", s |-> Obj(<<[k |-> "inner", s |-> Str_]>>, <<"inner">>)]>>,
   docs |-> << JObj(<<KV("top", JNum(4)), KV("x", JObj(<<KV("inner", JStr(<<"a">>))>>))>>), JObj(<<KV("top", JNum(8))>>),
               JObj(<<KV("x", JObj(<<KV("inner", JStr(<<"a">>))>>))>>), JObj(<<KV("top", JNum(0))>>),
               JObj(<<KV("top", JNum(4)), KV("x", JObj(<<>>))>>) >>,
   nobuild |-> <<>>]

(* ---- type names ---- *)
TypeUnit(v) ==
  IF v = 1 THEN
    \* nested types OrderShipTo / OrderShipTo_2 from colliding sibling properties, plus two definitions whose
    \* own names normalise to OrderShipTo
    [prop |-> "C14", fam |-> "types",
     schema |-> Obj(<<[k |-> "o", s |-> [ref |-> [k |-> "defs", n |-> "Order"]]],
                      [k |-> "p", s |-> [ref |-> [k |-> "defs", n |-> "OrderShipTo"]]],
                      [k |-> "q", s |-> [ref |-> [k |-> "defs", n |-> "order_ship_to"]]]>>, <<>>),
     defs |-> <<[k |-> "Order", s |-> Obj(<<[k |-> "ship to", s |-> Obj(<<[k |-> "a", s |-> Int_]>>, <<"a">>)],
                                            [k |-> "ship_to", s |-> Obj(<<[k |-> "b", s |-> Str_]>>, <<"b">>)]>>, <<>>)],
                [k |-> "OrderShipTo", s |-> Obj(<<[k |-> "c", s |-> Int_]>>, <<"c">>)],
                [k |-> "order_ship_to", s |-> Obj(<<[k |-> "d", s |-> Str_]>>, <<"d">>)]>>,
     docs |-> << JObj(<<KV("o", JObj(<<KV("ship to", JObj(<<KV("a", JNum(4))>>)), KV("ship_to", JObj(<<KV("b", JStr(<<"a">>))>>))>>)),
                        KV("p", JObj(<<KV("c", JNum(8))>>)), KV("q", JObj(<<KV("d", JStr(<<"b">>))>>))>>),
                 JObj(<<KV("p", JObj(<<>>))>>), JObj(<<KV("q", JObj(<<KV("c", JNum(4))>>))>>),
                 JObj(<<KV("o", JObj(<<KV("ship to", JObj(<<KV("b", JStr(<<"a">>))>>))>>))>>) >>,
     nobuild |-> <<>>]
  ELSE
    \* anyOf branch scopes OuterX_0 / OuterX_1 next to a definition named outer_x
    [prop |-> "C14", fam |-> "types",
     schema |-> Obj(<<[k |-> "o", s |-> [ref |-> [k |-> "defs", n |-> "Outer"]]],
                      [k |-> "p", s |-> [ref |-> [k |-> "defs", n |-> "outer_x"]]]>>, <<>>),
     defs |-> <<[k |-> "Outer", s |-> Obj(<<[k |-> "x", s |-> [anyOf |-> <<Obj(<<[k |-> "a", s |-> Int_]>>, <<"a">>),
                                                                          Obj(<<[k |-> "b", s |-> Str_]>>, <<"b">>)>>]]>>, <<>>)],
                [k |-> "outer_x", s |-> Obj(<<[k |-> "c", s |-> Int_]>>, <<"c">>)]>>,
     docs |-> << JObj(<<KV("o", JObj(<<KV("x", JObj(<<KV("a", JNum(4))>>))>>)), KV("p", JObj(<<KV("c", JNum(8))>>))>>),
                 JObj(<<KV("p", JObj(<<>>))>>), JObj(<<KV("o", JObj(<<KV("x", JObj(<<KV("c", JNum(4))>>))>>))>>) >>,
     nobuild |-> <<>>]

(* ---- sets of definitions whose names normalise to ONE identifier, referring to each other ---- *)
\* every 2- and 3-element subset of four names that all become "Node", with every way of giving each definition a
\* property r that refers to another definition of the set (or none): while one of them is being generated, the
\* reference leads into another one that needs a fresh suffixed name.  Each definition has its own required key, so
\* a document tells the types apart.
NodePool == <<"Node", "_node", "node", "node_">>
NodeSets == {S \in SUBSET (1..Len(NodePool)) : Cardinality(S) \in {2, 3}}
NodePars == UNION {{<<S, m>> : m \in [S -> S \cup {0}]} : S \in NodeSets}
KeyOf(i) == CASE i = 1 -> "ka" [] i = 2 -> "kb" [] i = 3 -> "kc" [] i = 4 -> "kd"
PropOf(i) == CASE i = 1 -> "pa" [] i = 2 -> "pb" [] i = 3 -> "pc" [] i = 4 -> "pd"
NodeUnit(S, m) ==
  LET ks == SetToSeq(S)
      def(i) == Obj(<<[k |-> KeyOf(i), s |-> Int_]>>
                    \o (IF m[i] = 0 \/ m[i] = i THEN <<>> ELSE <<[k |-> "r", s |-> [ref |-> [k |-> "defs", n |-> NodePool[m[i]]]]]>>),
                    <<KeyOf(i)>>)
      full == JObj([j \in DOMAIN ks |-> KV(PropOf(ks[j]), JObj(<<KV(KeyOf(ks[j]), JNum(4 * ks[j]))>>))])
      \* the key of ANOTHER definition of the set does not satisfy this one's required key
      wrong(j) == JObj(<<KV(PropOf(ks[j]), JObj(<<KV(KeyOf(ks[(j % Len(ks)) + 1]), JNum(4))>>))>>)
      nested(j) == JObj(<<KV(PropOf(ks[j]), JObj(<<KV(KeyOf(ks[j]), JNum(4)), KV("r", JObj(<<>>))>>))>>)
  IN [prop |-> "C14", fam |-> "typeset",
      schema |-> Obj([j \in DOMAIN ks |-> [k |-> PropOf(ks[j]), s |-> [ref |-> [k |-> "defs", n |-> NodePool[ks[j]]]]]], <<>>),
      defs |-> [j \in DOMAIN ks |-> [k |-> NodePool[ks[j]], s |-> def(ks[j])]],
      docs |-> <<full>> \o [j \in DOMAIN ks |-> wrong(j)] \o [j \in DOMAIN ks |-> nested(j)], nobuild |-> <<>>]

(* ---- capitalization lists ---- *)
\* (the last three start with a lower-case letter -- iOS, eBay style: the field must still be exported; fix e2eef26)
CapLists == << <<"ID">>, <<"ID", "URL">>, <<"3D", "ID">>, <<"IPv4", "ID">>, <<"Id", "URl">>, <<"Foo_Bar">>,
               <<"iD">>, <<"uRL", "iPv4">>, <<"idx", "url">> >>
CapUnit(i) ==
  LET names == <<"id", "my_id", "user-id", "3d", "url", "ipv4", "foo_bar", "idx">>
      ps == [k \in DOMAIN names |-> [k |-> names[k], s |-> Int_]]
  IN [prop |-> "C14", fam |-> "caps", schema |-> Obj(ps, <<>>), defs |-> <<>>,
      docs |-> << JObj([k \in DOMAIN names |-> KV(names[k], JNum(4 * k))]) >>, nobuild |-> <<>>,
      opts |-> [capitalizations |-> CapLists[i]]]

(* ---- property names with characters that are hostile to struct tags ---- *)
\* 1-4: legal in a Go raw string but not in an encoding/json tag name (never bound: deviation TagInvalidKeyUnbound);
\* 5-7: a backtick ends the raw string that holds the tag; a double quote or a newline is legal there (the tag is then
\* garbage to reflect: unbound) but breaks the interpreted raw["..."] of a required check (the emitted file does not
\* parse: deviation TagSyntaxBrokenByName); 8-13: punctuation encoding/json does accept (space, colon, equals sign, percent
\* signs that look like printf verbs, braces, brackets): must simply work
TagNames == <<"don't", "tab\tkey", "i,j", "e\\f", "a\"b", "c`d", "g\nh", "ok key", "k:l", "a=b", "cpu%", "100%s", "%d{x}[1]">>
TagUnit(i, req) ==
  LET n == TagNames[i] IN
  [prop |-> "C14", fam |-> "tagchars", tagok |-> i >= 8,
   schema |-> Obj(<<[k |-> n, s |-> Int_], [k |-> "z", s |-> Int_]>>, IF req THEN <<n>> ELSE <<>>), defs |-> <<>>,
   docs |-> << JObj(<<KV(n, JNum(4)), KV("z", JNum(8))>>), JObj(<<KV(n, JNum(12))>>) >>,
   \* (a newline is legal inside the raw string that holds the tag, not inside the interpreted raw["..."] of a required check)
   nobuild |-> IF i = 6 \/ (i \in {5, 7} /\ req) THEN <<"TagSyntaxBrokenByName">> ELSE <<>>]

Pars(f) == CASE f = "tagchars" -> (DOMAIN TagNames) \X BOOLEAN [] f = "siblings" -> Subsets [] f = "types" -> {1, 2} [] f = "caps" -> DOMAIN CapLists [] f = "typeset" -> NodePars
             [] f = "apfield" -> {1} [] f = "rootname" -> {1}
u == CASE fam = "siblings" -> SibUnit(par) [] fam = "types" -> TypeUnit(par) [] fam = "caps" -> CapUnit(par)
       [] fam = "typeset" -> NodeUnit(par[1], par[2]) [] fam = "apfield" -> ApUnit [] fam = "rootname" -> RootNameUnit
       [] fam = "tagchars" -> TagUnit(par[1], par[2])
Set == picked

DesignOK == Set => LET unit == u IN Valid(unit.defs, unit.schema, unit.docs[1], {}, "decl", NoLim) = Acc
AsIsOK == TRUE
Init == fam \in {"siblings", "types", "caps", "typeset", "apfield", "rootname", "tagchars"} /\ par = 0 /\ picked = FALSE
Pick == ~picked /\ picked' = TRUE /\ par' \in Pars(fam) /\ UNCHANGED fam
Next == Pick
Spec == Init /\ [][Next]_vars
Emit == Set => (UnitsFile = "" \/ LET unit == u IN PrintT("UNIT " \o ToJson(unit)))
=============================================================================
