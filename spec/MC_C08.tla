------------------------------ MODULE MC_C08 ------------------------------
(***************************************************************************)
(* C08 -- enum values are exactly the accepted set.                          *)
(* Units: every ordered list of up to 3 distinct atoms out of                *)
(* {"a", "bé% a", 1, 2, 1.5, true, false, null} that conforms to the declared    *)
(* type (absent, string, integer, number, boolean, null, [string,null]) x     *)
(* use (required, optional, via $ref, array items, optional with default).    *)
(* Documents: all 8 atoms, 4 non-members of different JSON types, absent.      *)
(***************************************************************************)
EXTENDS EnumImpl, Json, SequencesExt

CONSTANTS UnitsFile, Devs

VARIABLES use, ty, lst       \* lst = <<0>> while unset
vars == <<use, ty, lst>>

\* the first string is "1": it prints like the number 1 (JSON equality still tells them apart)
\* 9..12: strings that map to ONE identifier (a b, a_b, a-b, two blanks)
Atoms == << JStr(<<"d1">>), JStr(<<"b", "e2", "pc", "sp", "a">>), JNum(4), JNum(8), JNum(6), JBool(TRUE), JBool(FALSE), JNull,
            JStr(<<"a", "sp", "b">>), JStr(<<"a", "us", "b">>), JStr(<<"a", "hy", "b">>), JStr(<<"a", "sp", "sp", "b">>),
            \* 13..17: strings hostile to a Go string literal (backslash + carriage return, quote + carriage return, backtick +
            \* newline, tab, carriage return alone): the typed constant must hold exactly the listed string
            JStr(<<"a", "bs", "cr", "b">>), JStr(<<"qt", "a", "cr">>), JStr(<<"bt", "nl", "a">>), JStr(<<"a", "tb", "b">>), JStr(<<"b", "cr", "a">>) >>
NonMembers == << JStr(<<"a", "b">>), JNum(12), JArr(<<>>), JObj(<<>>) >>
Values == Atoms \o NonMembers

\* strings that map to ONE identifier (a b, a_b, a-b, two blanks): every 2- and 3-element list of them, as a typed
\* string enum at a required position: each value needs a constant of its own
CollideLists == {<<i, j>> : i \in 9..12, j \in 9..12} \cup {<<i, j, k>> : i \in 9..12, j \in 9..12, k \in 9..12}
HostileLists == {<<i>> : i \in 13..17} \cup {<<13, 14, 15>>, <<15, 16, 17>>, <<17, 14, 13>>}
Lists == {<<i>> : i \in 1..8} \cup {<<i, j>> : i \in 1..8, j \in 1..8} \cup {<<i, j, k>> : i \in 1..8, j \in 1..8, k \in 1..8}
Distinct(l) == \A i, j \in DOMAIN l : i # j => l[i] # l[j]

Types_ == {"none", "string", "integer", "number", "boolean", "null", "strnull"}
Conforms(t, l) ==
  \A i \in DOMAIN l :
    LET a == Atoms[l[i]] IN
    CASE t = "none"    -> TRUE
      [] t = "string"  -> a.t = "str"
      [] t = "integer" -> a.t = "num" /\ IsIntegral(a)
      [] t = "number"  -> a.t = "num"
      [] t = "boolean" -> a.t = "bool"
      [] t = "null"    -> a.t = "null"
      [] t = "strnull" -> a.t \in {"str", "null"}

\* "reqsized" / "refsized" / "reqsizedb": the uses req / ref generated with --min-sized-ints (integer enums only; the
\* last one with bounds 0..100 next to the enum, which select an unsigned 8-bit type for a plain integer): the flag
\* must not change the accepted set (before fix 86d9885 the sized carrier matched none of the listed values)
Uses == {"req", "opt", "ref", "items", "optdefault", "reqsized", "refsized", "reqsizedb"}
SizedUses == {"reqsized", "refsized", "reqsizedb"}

EnumSchema(t, l) ==
  ("enum" :> [i \in DOMAIN l |-> Atoms[l[i]]])
  @@ (CASE t = "none" -> <<>> [] t = "strnull" -> "type" :> <<"string", "null">> [] OTHER -> "type" :> <<t>>)

Wrap(x) == JObj(<<KV("x", x)>>)

Unit(us, t, l) ==
  LET es == EnumSchema(t, l) @@ (IF us = "reqsizedb" THEN ("minimum" :> JNum(0)) @@ ("maximum" :> JNum(400)) ELSE <<>>)
      firstNonNull == {i \in DOMAIN l : Atoms[l[i]].t # "null"}
      us2 == IF us = "optdefault" /\ firstNonNull = {} THEN "opt"
             ELSE IF us \in {"reqsized", "reqsizedb"} THEN "req" ELSE IF us = "refsized" THEN "ref" ELSE us
      dflt == Atoms[l[CHOOSE i \in firstNonNull : \A j \in firstNonNull : i <= j]]
      xobj(s, r) == ("type" :> <<"object">>) @@ ("properties" :> <<[k |-> "x", s |-> s]>>)
                    @@ (IF r THEN "required" :> <<"x">> ELSE <<>>)
      base == [prop |-> "C08", use |-> us2, defs |-> <<>>, opts |-> [minSizedInts |-> us \in SizedUses],
               nobuild |-> IF us2 = "optdefault" /\ Carrier(es) = "iface" THEN <<"DefaultOnWrappedEnum">> ELSE <<>>]
      docs == [i \in DOMAIN Values |-> Wrap(Values[i])] \o <<JObj(<<>>)>>
  IN
  CASE us2 = "req" -> base @@ [schema |-> xobj(es, TRUE), docs |-> docs]
    [] us2 = "opt" -> base @@ [schema |-> xobj(es, FALSE), docs |-> docs]
    [] us2 = "optdefault" -> base @@ [schema |-> xobj(es @@ ("default" :> dflt), FALSE), docs |-> docs]
    [] us2 = "ref" -> [base EXCEPT !.defs = <<[k |-> "N", s |-> es]>>]
                      @@ [schema |-> xobj([ref |-> [k |-> "defs", n |-> "N"]], TRUE), docs |-> docs]
    [] us2 = "items" -> base @@ [schema |-> xobj([type |-> <<"array">>, items |-> es], TRUE),
                                 docs |-> [i \in DOMAIN Values |-> Wrap(JArr(<<Atoms[l[1]], Values[i]>>))] \o <<JObj(<<>>)>>]

u == Unit(use, ty, lst)
Set == lst # <<0>>

ES(unit) == IF unit.defs # <<>> THEN unit.defs[1].s
            ELSE IF unit.use = "items" THEN unit.schema.properties[1].s.items ELSE unit.schema.properties[1].s

\* The generated code around the enum type: required check on the raw map; a pointer field (optional)
\* is set to nil by a JSON null without calling UnmarshalJSON; a value field gets UnmarshalJSON(null).
\* (Before fix 5108797 a $ref to an enum definition without `type` became interface{} and validated nothing.)
ImplAccepts(unit, d, D) ==
  LET es == ES(unit) IN
  IF ~ObjHas(d, "x") THEN "x" \notin Required(unit.schema)
  ELSE LET v == ObjVal(d, "x") IN
    CASE unit.use = "opt" -> v.t = "null" \/ EnumUnmarshalAccepts(es, v)      \* pointer field: null => nil
      \* with a default the field is a value: UnmarshalJSON(null) runs (deviation EnumNullDefault);
      \* in the intended design a null counts as absent and the default applies
      [] unit.use = "optdefault" -> IF v.t = "null" /\ "EnumNullDefault" \notin D THEN TRUE
                                    ELSE EnumUnmarshalAccepts(es, v)
      [] unit.use = "req" -> EnumUnmarshalAccepts(es, v)
      [] unit.use = "ref" -> EnumUnmarshalAccepts(es, v)
      [] unit.use = "items" -> v.t = "arr" /\ \A i \in DOMAIN v.a : EnumUnmarshalAccepts(es, v.a[i])

RefVerdict(unit, d)    == Valid(unit.defs, unit.schema, d, {}, "decl", NoLim)
DevVerdict(unit, d, D) == Valid(unit.defs, unit.schema, d, D, "decl", NoLim)

Agree(unit, D) ==
  \A i \in DOMAIN unit.docs :
     LET r == DevVerdict(unit, unit.docs[i], D) IN
     r # Un => (ImplAccepts(unit, unit.docs[i], D) <=> r = Acc)

DesignOK == Set => LET unit == u IN Agree(unit, {})
AsIsOK   == Set => LET unit == u IN Agree(unit, Devs)

Init == use \in Uses /\ ty \in Types_ /\ lst = <<0>>
Pick == /\ lst = <<0>>
        /\ (use \in SizedUses => ty = "integer")
        /\ lst' \in {l \in Lists : Distinct(l) /\ Conforms(ty, l)}
                   \cup (IF ty = "string" /\ use \in {"req", "ref"} THEN {l \in CollideLists : Distinct(l)} \cup HostileLists ELSE {})
        /\ UNCHANGED <<use, ty>>
Next == Pick
Spec == Init /\ [][Next]_vars

Emit == Set => (UnitsFile = "" \/ LET unit == u IN PrintT("UNIT " \o ToJson(unit)))
=============================================================================
