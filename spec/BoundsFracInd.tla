--------------------------- MODULE BoundsFracInd ---------------------------
(***************************************************************************)
(* BoundsInd with FRACTIONAL schema constants on an integer field, over         *)
(* unbounded integers, for Apalache.  The four constants are given in quarter    *)
(* units (the bound is v/4, v any integer), the document value x is an integer.   *)
(* genBoundary for integer fields (validator.go, after fix a9f0e7c): a bound that  *)
(* is not integral is replaced by the nearest integer INSIDE the range (floor for   *)
(* an upper bound, ceil for a lower one) and compared inclusively; an integral        *)
(* bound keeps its exclusiveness.                                                      *)
(*   apalache-mc check --length=0 --init=Init --inv=AgreeRound BoundsFracInd.tla        *)
(* proves: for every combination of keywords, every quarter-valued constant and every    *)
(* integer x the transcribed code accepts x iff x satisfies every stated bound;           *)
(*   ... --inv=AgreeTrunc  (int64(bound): truncation toward zero, exclusiveness kept --     *)
(* the code before the fix, deviation switch "IntBoundTruncated") must FAIL.                 *)
(***************************************************************************)
EXTENDS Integers

VARIABLES
  \* @type: Bool;
  hasMin,
  \* @type: Bool;
  hasMax,
  \* @type: Int;
  vMin,
  \* @type: Int;
  vMax,
  \* exclusive bounds: kind "none" | "bool" | "num"
  \* @type: Str;
  kEMin,
  \* @type: Str;
  kEMax,
  \* @type: Bool;
  bEMin,
  \* @type: Bool;
  bEMax,
  \* @type: Int;
  vEMin,
  \* @type: Int;
  vEMax,
  \* @type: Int;
  x

Kinds == {"none", "bool", "num"}

Init ==
  /\ hasMin \in BOOLEAN /\ hasMax \in BOOLEAN /\ bEMin \in BOOLEAN /\ bEMax \in BOOLEAN
  /\ kEMin \in Kinds /\ kEMax \in Kinds
  /\ vMin \in Int /\ vMax \in Int /\ vEMin \in Int /\ vEMax \in Int /\ x \in Int

Next == UNCHANGED <<hasMin, hasMax, vMin, vMax, kEMin, kEMax, bEMin, bEMax, vEMin, vEMax, x>>

\* ---- reference: every stated bound holds; bounds are v/4, so  v/4 <= x  is  v <= 4x ----
RefAccepts ==
  /\ (hasMin => vMin <= 4 * x)
  /\ (hasMax => 4 * x <= vMax)
  /\ (kEMin = "num" => vEMin < 4 * x)
  /\ (kEMax = "num" => 4 * x < vEMax)
  /\ ((kEMin = "bool" /\ bEMin /\ hasMin) => vMin < 4 * x)
  /\ ((kEMax = "bool" /\ bEMax /\ hasMax) => 4 * x < vMax)

\* ---- implementation: NormalizeBounds (on the float64 constants: same order as the quarters), then genBoundary ----
LoTakesExcl == kEMin = "num" /\ (~hasMin \/ vEMin >= vMin)
LoOn  == IF LoTakesExcl THEN TRUE ELSE hasMin
LoVal == IF LoTakesExcl THEN vEMin ELSE vMin
LoEx  == IF kEMin = "bool" THEN bEMin ELSE LoTakesExcl
HiTakesExcl == kEMax = "num" /\ (~hasMax \/ vEMax <= vMax)
HiOn  == IF HiTakesExcl THEN TRUE ELSE hasMax
HiVal == IF HiTakesExcl THEN vEMax ELSE vMax
HiEx  == IF kEMax = "bool" THEN bEMax ELSE HiTakesExcl

\* @type: (Int) => Int;
Floor4(v) == v \div 4
\* @type: (Int) => Int;
Ceil4(v)  == -((-v) \div 4)
\* @type: (Int) => Int;
Trunc4(v) == IF v >= 0 THEN v \div 4 ELSE -((-v) \div 4)
\* @type: (Int) => Bool;
Frac(v) == v % 4 # 0

\* rounded = TRUE: the tree as it is; FALSE: int64(bound) of the code before fix a9f0e7c
\* @type: (Bool) => Bool;
ImplAccepts(rounded) ==
  LET lob == IF Frac(LoVal) THEN (IF rounded THEN Ceil4(LoVal) ELSE Trunc4(LoVal)) ELSE LoVal \div 4
      loe == IF Frac(LoVal) /\ rounded THEN FALSE ELSE LoEx
      hib == IF Frac(HiVal) THEN (IF rounded THEN Floor4(HiVal) ELSE Trunc4(HiVal)) ELSE HiVal \div 4
      hie == IF Frac(HiVal) /\ rounded THEN FALSE ELSE HiEx
  IN /\ ~(LoOn /\ (IF loe THEN lob >= x ELSE lob > x))
     /\ ~(HiOn /\ (IF hie THEN hib <= x ELSE hib < x))

AgreeRound == ImplAccepts(TRUE) <=> RefAccepts      \* the tree as it is (after fix a9f0e7c)
AgreeTrunc == ImplAccepts(FALSE) <=> RefAccepts     \* truncation toward zero: must FAIL
=============================================================================
