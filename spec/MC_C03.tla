------------------------------ MODULE MC_C03 ------------------------------
(***************************************************************************)
(* C03 -- a value of the wrong JSON type is rejected; null is accepted where  *)
(* allowed.  Units: every typed position kind (primitive types, array,        *)
(* object, string formats, and non-string types carrying a string `format`)  *)
(* x nullable x container context (required/optional property, array item at  *)
(* depth 1 and 2, definition, nested property, typed additionalProperties).   *)
(* Documents: EVERY JSON value shape of every type at the position.           *)
(***************************************************************************)
EXTENDS ObjImpl, Json, SequencesExt

CONSTANTS UnitsFile, Devs

VARIABLES ctx, kind, nul       \* kind = "?" while unset
vars == <<ctx, kind, nul>>

Int_ == [type |-> <<"integer">>]
\* "sizedint": an integer with bounds 1..40 generated with --min-sized-ints (uint8): the sized path must keep the
\* pointer of a nullable integer
Kinds == {"string", "integer", "number", "boolean", "arrint", "obj",
          "strdate", "strtime", "strdt", "stripv4", "stripv6", "intdt", "numdate", "booltime", "sizedint",
          "arrmin", "strmin", "arruniq", "arrintuniq", "intmult"}
\* "arruniq" / "arrintuniq": arrays (untyped items / integer items) that carry `uniqueItems: true`, a keyword the tool
\* gives no meaning; the documents hold no duplicates, so it changes no verdict -- and must not make a call crash
\* "arrmin" / "strmin": an array with minItems 1 / a string with minLength 1 and a pattern: the validators of a struct
\* field sit behind the typed decode, and a nullable field's null must pass them (nil guards)
\* "intmult": an integer with the fractional divisor 2.5 -- still an integer: 2.5 and 7.5 are not
FieldOnly == {"sizedint", "arrmin", "strmin", "arruniq", "intmult"}   \* (an array without items cannot be a declared type)
FieldCtx == {"req", "opt", "nested"}       \* positions that are struct fields (value validators apply)
AddlKinds == {"string", "integer", "number", "boolean", "strdate", "strdt", "stripv4"}   \* string formats: the collected values stay strings
\* "map": value of a property-less object with typed additionalProperties (a Go map); "maparr": element of an array
\* that is such a value (map[string][]T)
\* "bothdefs": the document carries `$defs` AND the legacy `definitions`, each with an entry N of a different type;
\* "#/$defs/N" means the entry of `$defs`
Contexts == {"req", "opt", "item", "item2", "def", "nested", "addl", "map", "maparr", "bothdefs"}

LeafOf(k) ==
  CASE k = "string"  -> [type |-> <<"string">>]
    [] k = "integer" -> Int_
    [] k = "number"  -> [type |-> <<"number">>]
    [] k = "boolean" -> [type |-> <<"boolean">>]
    [] k = "arrint"  -> [type |-> <<"array">>, items |-> Int_]
    [] k = "obj"     -> ("type" :> <<"object">>) @@ ("properties" :> <<[k |-> "k", s |-> Int_]>>)
    [] k = "strdate" -> [type |-> <<"string">>, format |-> "date"]
    [] k = "strtime" -> [type |-> <<"string">>, format |-> "time"]
    [] k = "strdt"   -> [type |-> <<"string">>, format |-> "date-time"]
    [] k = "stripv4" -> [type |-> <<"string">>, format |-> "ipv4"]
    [] k = "stripv6" -> [type |-> <<"string">>, format |-> "ipv6"]
    [] k = "intdt"   -> [type |-> <<"integer">>, format |-> "date-time"]
    [] k = "numdate" -> [type |-> <<"number">>, format |-> "date"]
    [] k = "booltime" -> [type |-> <<"boolean">>, format |-> "time"]
    [] k = "sizedint" -> ("type" :> <<"integer">>) @@ ("minimum" :> JNum(4)) @@ ("maximum" :> JNum(160))
    [] k = "intmult" -> ("type" :> <<"integer">>) @@ ("multipleOf" :> 10)
    [] k = "arrmin"  -> [type |-> <<"array">>, items |-> Int_, minItems |-> 1]
    [] k = "arruniq" -> [type |-> <<"array">>, ignored |-> <<"uniqueItems", "$comment">>]
    [] k = "arrintuniq" -> [type |-> <<"array">>, items |-> Int_, ignored |-> <<"uniqueItems", "readOnly">>]
    [] k = "strmin"  -> [type |-> <<"string">>, minLength |-> 1, pattern |-> "p_a"]

Values == << JNull, JBool(TRUE), JBool(FALSE), JNum(0), JNum(4), JNum(2), JNum(-12), JNum(10), JNum(30), JNum(20),
             JStr(<<>>), JStr(<<"a">>), JFmt("date"), JFmt("time"), JFmt("date-time"), JFmt("ipv4"), JFmt("ipv6"),
             JArr(<<>>), JArr(<<JNum(0)>>), JArr(<<JStr(<<"a">>)>>), JArr(<<JNum(2)>>),
             JArr(<<JObj(<<KV("k", JNum(0))>>)>>), JArr(<<JNum(0), JArr(<<JNum(4)>>)>>),
             JObj(<<>>), JObj(<<KV("k", JNum(0))>>), JObj(<<KV("k", JStr(<<"a">>))>>) >>

Wrap(x) == JObj(<<KV("x", x)>>)
Valid0(k) == CASE k \in {"string", "strmin"} -> JStr(<<"a">>) [] k \in {"integer", "number", "intdt", "numdate", "sizedint"} -> JNum(4) [] k = "intmult" -> JNum(20)
               [] k \in {"boolean", "booltime"} -> JBool(TRUE) [] k \in {"arrint", "arrmin", "arruniq", "arrintuniq"} -> JArr(<<JNum(0)>>)
               [] k = "obj" -> JObj(<<KV("k", JNum(0))>>)
               [] k = "strdate" -> JFmt("date") [] k = "strtime" -> JFmt("time") [] k = "strdt" -> JFmt("date-time")
               [] k = "stripv4" -> JFmt("ipv4") [] k = "stripv6" -> JFmt("ipv6")

Unit(c, k, n) ==
  LET leaf0 == LeafOf(k)
      leaf  == IF n THEN [leaf0 EXCEPT !.type = @ \o <<"null">>] ELSE leaf0
      ok    == Valid0(k)
      xobj(s, r) == ("type" :> <<"object">>) @@ ("properties" :> <<[k |-> "x", s |-> s]>>)
                    @@ (IF r THEN "required" :> <<"x">> ELSE <<>>)
      arr(s) == [type |-> <<"array">>, items |-> s]
      other == IF k \in {"boolean", "booltime"} THEN Int_ ELSE [type |-> <<"boolean">>]
      base == [prop |-> "C03", ctx |-> c, kind |-> k, nullable |-> n, defs |-> <<>>, opts |-> [minSizedInts |-> k = "sizedint"], nobuild |-> <<>>]
      mapOf(s) == [type |-> <<"object">>, additionalProperties |-> [k |-> "s", s |-> s]]
  IN
  CASE c = "req"   -> base @@ [schema |-> xobj(leaf, TRUE), docs |-> [i \in DOMAIN Values |-> Wrap(Values[i])]]
    [] c = "opt"   -> base @@ [schema |-> xobj(leaf, FALSE), docs |-> [i \in DOMAIN Values |-> Wrap(Values[i])]]
    [] c = "item"  -> base @@ [schema |-> xobj(arr(leaf), TRUE),
                               docs |-> [i \in DOMAIN Values |-> Wrap(JArr(<<ok, Values[i]>>))]]
    [] c = "item2" -> base @@ [schema |-> xobj(arr(arr(leaf)), TRUE),
                               docs |-> [i \in DOMAIN Values |-> Wrap(JArr(<<JArr(<<ok>>), JArr(<<ok, Values[i]>>)>>))]]
    [] c = "def"   -> [base EXCEPT !.defs = <<[k |-> "N", s |-> leaf]>>]
                      @@ [schema |-> xobj([ref |-> [k |-> "defs", n |-> "N"]], TRUE),
                          docs |-> [i \in DOMAIN Values |-> Wrap(Values[i])]]
    [] c = "bothdefs" -> [base EXCEPT !.defs = <<[k |-> "N", s |-> leaf]>>]
                      @@ [schema |-> xobj([ref |-> [k |-> "defs", n |-> "N"]], TRUE), ldefs |-> <<[k |-> "N", s |-> other]>>,
                          docs |-> [i \in DOMAIN Values |-> Wrap(Values[i])]]
    [] c = "nested" -> base @@ [schema |-> xobj(("type" :> <<"object">>) @@ ("properties" :> <<[k |-> "y", s |-> leaf]>>), TRUE),
                                docs |-> [i \in DOMAIN Values |-> Wrap(JObj(<<KV("y", Values[i])>>))]]
    [] c = "map"    -> base @@ [schema |-> xobj(mapOf(leaf), TRUE), docs |-> [i \in DOMAIN Values |-> Wrap(JObj(<<KV("e", Values[i])>>))]]
    [] c = "maparr" -> base @@ [schema |-> xobj(mapOf(arr(leaf)), TRUE),
                                docs |-> [i \in DOMAIN Values |-> Wrap(JObj(<<KV("e", JArr(<<ok, Values[i]>>))>>))]]
    [] c = "addl"  -> base @@ [schema |-> ("type" :> <<"object">>) @@ ("properties" :> <<[k |-> "p", s |-> Int_]>>)
                                          @@ ("additionalProperties" :> [k |-> "s", s |-> leaf]),
                               docs |-> [i \in DOMAIN Values |-> JObj(<<KV("p", JNum(4)), KV("e", Values[i])>>)]]

u == Unit(ctx, kind, nul)
Set == kind # "?"

\* the value at the typed position of document i
At(unit, d) ==
  CASE unit.ctx \in {"req", "opt", "def", "bothdefs"} -> ObjVal(d, "x")
    [] unit.ctx = "item"   -> ObjVal(d, "x").a[2]
    [] unit.ctx = "item2"  -> ObjVal(d, "x").a[2].a[2]
    [] unit.ctx = "nested" -> ObjVal(ObjVal(d, "x"), "y")
    [] unit.ctx = "addl"   -> ObjVal(d, "e")
    [] unit.ctx = "map"    -> ObjVal(ObjVal(d, "x"), "e")
    [] unit.ctx = "maparr" -> ObjVal(ObjVal(d, "x"), "e").a[2]

\* Go typed decode of the position (encoding/json; mapstructure.Decode for additional properties:
\* deviation "AddlIntTruncates": any JSON number converts to int, null becomes the zero value)
ImplAccepts(unit, d, D) ==
  LET v == At(unit, d)  leaf == LeafOf(unit.kind) IN
  IF unit.ctx = "addl" THEN
       IF v.t = "null" THEN TRUE
       ELSE IF unit.kind = "integer" /\ "AddlIntTruncates" \in D THEN v.t = "num"
       \* a string format on collected values selects no dedicated Go type: the map holds strings (mapstructure)
       ELSE IF Main(leaf) = "string" /\ "AddlValuesTypedOnly" \in D THEN v.t \in {"str", "fmt"}
       ELSE ImplValue(<<>>, leaf, v, D)
  ELSE /\ ImplValue(<<>>, leaf, v, D)
       /\ (unit.kind \in {"sizedint", "strmin", "intmult"} => LeafOK(leaf, v, D))      \* numericValidator / stringValidator of the field
       /\ (unit.kind = "arrmin" => (v.t # "arr" \/ Len(v.a) >= 1))          \* arrayValidator behind its nil guard

RefVerdict(unit, d)    == Valid(unit.defs, unit.schema, d, {}, "decl", NoLim)
DevVerdict(unit, d, D) == Valid(unit.defs, unit.schema, d, D, "decl", NoLim)

Agree(unit, D) ==
  \A i \in DOMAIN unit.docs :
     LET r == DevVerdict(unit, unit.docs[i], D) IN
     r # Un => (ImplAccepts(unit, unit.docs[i], D) <=> r = Acc)

DesignOK == Set => LET unit == u IN Agree(unit, {})
AsIsOK   == Set => LET unit == u IN Agree(unit, Devs)

Init == ctx \in Contexts /\ nul \in BOOLEAN /\ kind = "?"
Pick == /\ kind = "?"
        /\ kind' \in (IF ctx = "addl" THEN AddlKinds ELSE IF ctx \in FieldCtx THEN Kinds ELSE Kinds \ FieldOnly)
        /\ (ctx = "addl" => ~nul)
        /\ UNCHANGED <<ctx, nul>>
Next == Pick
Spec == Init /\ [][Next]_vars

Emit == Set => (UnitsFile = "" \/ LET unit == u IN PrintT("UNIT " \o ToJson(unit)))
=============================================================================
