---------------------------- MODULE Trace_C10R ----------------------------
(***************************************************************************)
(* Trace specification for the recursion part of C10.  One event per graph      *)
(* unit of spec/MC_C10R.tla, recorded from the real generator and the real        *)
(* generated program:                                                             *)
(*   [unit  |-> the unit (gonames: Go type name per definition + reachable, cyclic),                                *)
(*    gen   |-> "ok" | "err" | "dead" (the generator process crashed or hung),        *)
(*    built |-> the emitted package compiles,                                          *)
(*    decls |-> names of the declared Go types (go/ast),                                *)
(*    deep  |-> << [n, err, panic, same] >> documents that follow a cycle of the          *)
(*              graph n levels down (same: the re-marshalled value equals the input)]      *)
(* The walk model (spec/RefGraph.tla) says: generation terminates, every definition         *)
(* is declared exactly once.  The property adds: the types decode documents of any           *)
(* nesting depth -- depth 200 must be accepted and reproduced; at depth 10001 (beyond         *)
(* encoding/json's own limit of 10000) the call must return, with an error or not.             *)
(***************************************************************************)
EXTENDS Integers, Sequences, FiniteSets, TLC, Json
CONSTANTS ObsFile, Devs
VARIABLES l, tally
vars == <<l, tally>>
Obs == ndJsonDeserialize(ObsFile)

\* deviation "RecursiveAllOfUnsupported": a graph with an allOf-wrapped reference on a cycle is not generated
KnownGenFailure(e) == "RecursiveAllOfUnsupported" \in Devs /\ "allofcycle" \in DOMAIN e.unit /\ e.unit.allofcycle
IsDupOf(name, d) == Len(name) > Len(d) + 1 /\ SubSeq(name, 1, Len(d) + 1) = d \o "_"
Problems(e) ==
  (IF e.gen = "dead" THEN {"generation crashed or did not terminate"} ELSE {})
  \cup (IF e.gen = "err" /\ ~KnownGenFailure(e) THEN {"generation failed"} ELSE {})
  \* (under that deviation the generator either gives up or -- when the wrapped reference is reached while its target
  \* is still being generated -- emits a package that refers to types it never declares: both are the recorded finding;
  \* a crash, a hang, or a package that compiles but decodes wrongly are not)
  \cup (IF e.gen = "ok" /\ ~e.built /\ ~KnownGenFailure(e) THEN {"emitted package does not compile"} ELSE {})
  \cup (IF e.gen = "ok" /\ e.built
        THEN {"definition " \o e.unit.gonames[i].k \o " is not declared exactly once" : i \in
                {i \in DOMAIN e.unit.gonames :
                   /\ e.unit.gonames[i].reach
                   /\ \/ Cardinality({j \in DOMAIN e.decls : e.decls[j] = e.unit.gonames[i].k}) # 1
                      \/ \E j \in DOMAIN e.decls : IsDupOf(e.decls[j], e.unit.gonames[i].k)}}
        ELSE {})
  \cup (IF e.gen = "ok" /\ e.built
        THEN {"a document nested 200 levels along a cycle is not decoded faithfully" : i \in
                {i \in DOMAIN e.deep : e.deep[i].n <= 1000 /\ (e.deep[i].err \/ e.deep[i].panic \/ ~e.deep[i].same)}}
             \cup {"decoding a document nested beyond the JSON decoder's limit crashed" : i \in
                {i \in DOMAIN e.deep : e.deep[i].n > 1000 /\ e.deep[i].panic}}
             \cup (IF e.unit.cyclic /\ e.deep = <<>> THEN {"no deep document was run for a cyclic graph"} ELSE {})
        ELSE {})

Report(n, e, ps) ==
  PrintT("REPORT " \o ToJson([l |-> n, i |-> 0, class |-> "violation", kind |-> "graph", devs |-> <<>>,
                             ref |-> "terminates, one declaration per definition, decodes any depth",
                             obs |-> ToJson(ps), impl |-> "-"]))
Step(n, e, t) ==
  LET ps == Problems(e) IN
  IF ps = {} \/ Report(n, e, ps)
  THEN [ok |-> t.ok + (IF ps = {} /\ e.gen = "ok" /\ e.built THEN 1 ELSE 0), un |-> 0, known |-> t.known + (IF ps = {} /\ (e.gen = "err" \/ (e.gen = "ok" /\ ~e.built)) THEN 1 ELSE 0), viol |-> t.viol + (IF ps = {} THEN 0 ELSE 1), drift |-> 0,
        acc |-> t.acc + Len(e.deep), rej |-> t.rej + (IF e.unit.cyclic THEN 1 ELSE 0)]
  ELSE t
Init == l = 0 /\ tally = [ok |-> 0, un |-> 0, known |-> 0, viol |-> 0, drift |-> 0, acc |-> 0, rej |-> 0]
Next == l < Len(Obs) /\ l' = l + 1 /\ tally' = Step(l + 1, Obs[l + 1], tally)
Spec == Init /\ [][Next]_vars
Done == l = Len(Obs) => PrintT("TALLY " \o ToJson(tally))
Accepted == TLCGet("stats").diameter = Len(Obs) + 1
=============================================================================
