----------------------------- MODULE Trace_C10 -----------------------------
(***************************************************************************)
(* Trace specification for C10 (transparency of $ref).  One event per CLASS     *)
(* of spec/MC_C10.tla:                                                          *)
(*   [cls, forms |-> << [unit, gen ("ok" | "err"), built, res (one result per     *)
(*                       document), tx, tx2 (Go types of the two referring          *)
(*                       fields, "" if none)] >>]    forms[1] is the inline form    *)
(* recorded from the real generator and the real generated programs.  TLC          *)
(* compares every form with the inline form of its class, document by document:     *)
(* same verdict and, where both accept, JSON-equal re-marshalled values; and         *)
(* checks that the two referrers of one definition have one Go type.                 *)
(*                                                                          *)
(* The property is RELATIONAL: a pair on which both forms are equally wrong with      *)
(* respect to Valid satisfies it.  A difference is excused ("known") only where        *)
(* the as-is model -- Valid with the open deviations Devs, evaluated in the              *)
(* environment the as-is LOADER (spec/Loader.tla with Devs) binds each reference to --    *)
(* predicts different verdicts for the two forms and each observation equals its own      *)
(* prediction.  Documents on which the reference semantics is silent (null at a           *)
(* position that does not allow it) are not judged, as everywhere else.                    *)
(***************************************************************************)
EXTENDS JV, Loader, Json, SequencesExt
CONSTANTS ObsFile, Devs
VARIABLES l, tally
vars == <<l, tally>>
Obs == ndJsonDeserialize(ObsFile)

ObsV(r) == IF r.err \/ r.panic THEN Rej ELSE Acc

Env(un) == UnitEnv(un)

\* ---- the environment as the as-is loader and the as-is declaration tables bind it ----
FSOf(un) == {un.rootpath} \cup {un.files[i].path : i \in DOMAIN un.files}
FileAt(un, p) == un.files[CHOOSE i \in DOMAIN un.files : un.files[i].path = p]
\* name n is bound to the root of the file the loader actually returned for the load made for n
LoaderEnv(un, D) ==
  LET got == LoadAll(FSOf(un), un.exts, un.loads, {}, D)
      \* loads whose result differs from the intended file, and that found some file of the unit
      bad == {i \in DOMAIN un.loads : got[i] # un.loads[i].want /\ \E j \in DOMAIN un.files : un.files[j].path = got[i]}
  IN [j \in DOMAIN Env(un) |->
        IF \E i \in bad : un.loads[i].n = Env(un)[j].k
        THEN [k |-> Env(un)[j].k, s |-> FileAt(un, got[CHOOSE i \in bad : un.loads[i].n = Env(un)[j].k]).s]
        ELSE Env(un)[j]]
\* deviation "SameNameDefsCollapse": a definition whose name and text (reference TEXTS included, targets
\* ignored) equal those of a definition declared earlier in the run from another document is not declared
\* again: the earlier type is used.  In the units this is form "samedef": N2 collapses into N1.
Collapse(un, env, D) ==
  IF "SameNameDefsCollapse" \in D /\ un.form = "samedef"
  THEN [j \in DOMAIN env |-> IF env[j].k = "N2" THEN [k |-> "N2", s |-> EnvGet(env, "N1")] ELSE env[j]]
  ELSE env
AsIsEnv(un, D) == Collapse(un, LoaderEnv(un, D), D)

RefV(un, i)     == Valid(Env(un), un.schema, un.docs[i], {}, "decl", NoLim)
ImplV(un, i, D) == Valid(AsIsEnv(un, D), un.schema, un.docs[i], D, "decl", NoLim)

\* The untagged AdditionalProperties field is marshalled under its Go name; a nil map (or nil interface) and
\* an empty map hold the same decoded value: no additional properties
RECURSIVE StripAP(_)
StripAP(d) ==
  CASE d.t = "obj" -> [t |-> "obj", o |-> LET keep == SelectSeq(d.o, LAMBDA kv : ~(kv.k = "AdditionalProperties"
                                                                    /\ (kv.v.t = "null" \/ (kv.v.t = "obj" /\ kv.v.o = <<>>))))
                                          IN [i \in DOMAIN keep |-> [k |-> keep[i].k, v |-> StripAP(keep[i].v)]]]
    [] d.t = "arr" -> [t |-> "arr", a |-> [i \in DOMAIN d.a |-> StripAP(d.a[i])]]
    [] OTHER -> d
\* the schema written at the position of the class
PosSchema(un) ==
  CASE un.ctx \in {"req", "opt", "req2", "two", "twoall", "collide"} -> un.schema.properties[1].s
    [] un.ctx = "item"   -> un.schema.properties[1].s.items
    [] un.ctx = "nested" -> (IF Has(un.schema.properties[1].s, "ref") THEN un.schema.properties[1].s
                            ELSE un.schema.properties[1].s.properties[1].s)
    [] un.ctx = "addl"   -> un.schema.additionalProperties.s
\* under deviation BareDefUnvalidated a reference to a definition without any of type / properties / enum / allOf / anyOf is an
\* interface{} field: it holds the document verbatim (unknown keys, empty values, no defaults), which a typed
\* field re-marshals differently
IfaceField(un, D) ==
  LET ps == PosSchema(un) IN
  /\ "BareDefUnvalidated" \in D /\ Has(ps, "ref")
  /\ BareDef(EnvGet(Env(un), ps.ref.n))
Same(a, b) == ObsV(a) = ObsV(b) /\ (ObsV(a) = Acc => (a.out.t # "none" /\ b.out.t # "none" /\ JEq(StripAP(a.out), StripAP(b.out))))

\* class of document i of form f against the inline form b
DocClass(b, f, i) ==
  IF RefV(b.unit, i) = Un THEN "un"
  ELSE IF Same(b.res[i], f.res[i]) THEN "ok"
  ELSE LET pb == ImplV(b.unit, i, Devs)  pf == ImplV(f.unit, i, Devs) IN
       IF ObsV(b.res[i]) # ObsV(f.res[i]) THEN
            IF pb # pf /\ (pb = Un \/ ObsV(b.res[i]) = pb) /\ (pf = Un \/ ObsV(f.res[i]) = pf) THEN "known" ELSE "violation"
       \* both accept a document the reference semantics rejects, as both as-is models predict: what an
       \* invalid document decodes to is specified by nothing
       ELSE IF RefV(b.unit, i) = Rej /\ pb = Acc /\ pf = Acc THEN "known"
       ELSE \* both accept, values differ: each must hold its document as its own as-is model says
            IF /\ b.res[i].val.t # "none" /\ f.res[i].val.t # "none"
               /\ Decoded(AsIsEnv(b.unit, Devs), b.unit.schema, b.unit.docs[i], b.res[i].val, Devs)
               /\ Decoded(AsIsEnv(f.unit, Devs), f.unit.schema, f.unit.docs[i], f.res[i].val, Devs)
               /\ \/ ~(/\ Decoded(Env(b.unit), b.unit.schema, b.unit.docs[i], b.res[i].val, {})
                       /\ Decoded(Env(f.unit), f.unit.schema, f.unit.docs[i], f.res[i].val, {}))
                  \/ IfaceField(f.unit, Devs)
            THEN "known" ELSE "violation"

Explains(b, f, i) ==
  LET cands == CandDevs(KeysOf(b.unit.schema) \cup KeysOf(f.unit.schema) \cup EnvKeys(Env(f.unit)), Devs) \cup ({"SameNameDefsCollapse"} \cap Devs)
      ns == {x \in cands : ImplV(f.unit, i, Devs \ {x}) # ImplV(f.unit, i, Devs) \/ ImplV(b.unit, i, Devs \ {x}) # ImplV(b.unit, i, Devs)}
  IN IF ns # {} THEN ns ELSE cands

StripPtr(g) == IF Len(g) > 0 /\ SubSeq(g, 1, 1) = "*" THEN SubSeq(g, 2, Len(g)) ELSE g
\* one Go type shared by all referrers: in the forms where x and x2 refer to ONE definition
\* (a target the as-is generator maps to interface{} -- deviation BareDefUnvalidated -- has no Go type to share)
SharedClass(f) ==
  IF f.unit.ctx # "req2" \/ f.unit.form = "inline" THEN "none"
  ELSE LET xs == f.unit.schema.properties[1].s
           t  == EnvGet(Env(f.unit), xs.ref.n)
       IN IF f.tx # "" /\ StripPtr(f.tx) = StripPtr(f.tx2) THEN "ok"
          ELSE IF "BareDefUnvalidated" \in Devs /\ BareDef(t) THEN "none"
          ELSE "violation"

\* a form that does not generate or compile although the inline form does
Usable(f) == f.gen = "ok" /\ f.built

Report(n, k, i, c, kind, devs, ref, obs, impl) ==
  PrintT("REPORT " \o ToJson([l |-> n, i |-> i, form |-> k, class |-> c, kind |-> kind, devs |-> devs, ref |-> ref, obs |-> obs, impl |-> impl]))

Count(cls, c) == Cardinality({i \in DOMAIN cls : cls[i] = c})

\* all per-document classes of one form (empty when a side is unusable)
FormDocs(b, f) == IF Usable(b) /\ Usable(f) /\ Len(f.res) = Len(b.res) /\ f.unit.docs = b.unit.docs
                  THEN [i \in DOMAIN f.res |-> DocClass(b, f, i)] ELSE <<>>

Step(n, e, t) ==
  LET b == e.forms[1]
      ks == 2..Len(e.forms)
      docs == [k \in ks |-> FormDocs(b, e.forms[k])]
      \* a form is broken when the inline form is usable and it is not (or its results are incomparable)
      broken == {k \in ks : Usable(b) /\ docs[k] = <<>>}
      shared == [k \in ks |-> IF Usable(e.forms[k]) THEN SharedClass(e.forms[k]) ELSE "none"]
      cnt(c) == LET S == {<<k, i>> \in UNION {{<<k, i>> : i \in DOMAIN docs[k]} : k \in ks} : docs[k][i] = c} IN Cardinality(S)
  IN
  IF /\ \A k \in ks : \A i \in DOMAIN docs[k] :
           docs[k][i] \in {"ok", "un"}
           \/ Report(n, k, i, docs[k][i], "pair", SetToSeq(Explains(b, e.forms[k], i)),
                     ObsV(b.res[i]), ObsV(e.forms[k].res[i]), ImplV(b.unit, i, Devs) \o "/" \o ImplV(e.forms[k].unit, i, Devs))
     /\ \A k \in broken : Report(n, k, 0, "violation", "unusable", <<>>, "generates and compiles like the inline form",
                                 IF e.forms[k].gen # "ok" THEN "generation failed" ELSE "does not compile or incomparable", "-")
     /\ \A k \in ks : shared[k] \in {"none", "ok"}
           \/ Report(n, k, 0, "violation", "shared", <<>>, "one Go type for both referrers", e.forms[k].tx \o " vs " \o e.forms[k].tx2, "-")
  THEN [ok |-> t.ok + cnt("ok") + Cardinality({k \in ks : shared[k] = "ok"}), un |-> t.un + cnt("un"), known |-> t.known + cnt("known"),
        viol |-> t.viol + cnt("violation") + Cardinality(broken) + Cardinality({k \in ks : shared[k] = "violation"}),
        drift |-> t.drift,
        acc |-> t.acc + Cardinality({<<k, i>> \in UNION {{<<k, i>> : i \in DOMAIN docs[k]} : k \in ks} : docs[k][i] # "un" /\ ObsV(b.res[i]) = Acc}),
        rej |-> t.rej + Cardinality({<<k, i>> \in UNION {{<<k, i>> : i \in DOMAIN docs[k]} : k \in ks} : docs[k][i] # "un" /\ ObsV(b.res[i]) = Rej})]
  ELSE t

Init == l = 0 /\ tally = [ok |-> 0, un |-> 0, known |-> 0, viol |-> 0, drift |-> 0, acc |-> 0, rej |-> 0]
Next == l < Len(Obs) /\ l' = l + 1 /\ tally' = Step(l + 1, Obs[l + 1], tally)
Spec == Init /\ [][Next]_vars
Done == l = Len(Obs) => PrintT("TALLY " \o ToJson(tally))
Accepted == TLCGet("stats").diameter = Len(Obs) + 1
=============================================================================
