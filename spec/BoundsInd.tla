----------------------------- MODULE BoundsInd -----------------------------
(***************************************************************************)
(* Flat, typed copy of spec/Bounds.tla (NormalizeBounds + genBoundary) over    *)
(* UNBOUNDED integers, for Apalache (SMT).  TLC checks the same case analysis    *)
(* on a small window of quarter-unit numerals (MC_C05); here the constants and    *)
(* the value range over all of Int, so the result does not depend on the window:   *)
(*   apalache-mc check --length=0 --init=Init --inv=Agree BoundsInd.tla             *)
(* proves that for EVERY combination of presence / kind / value of minimum,          *)
(* maximum, exclusiveMinimum, exclusiveMaximum (boolean or numeric form) and          *)
(* every integer x, the transcribed implementation accepts x iff x satisfies every     *)
(* stated bound (C05: intersection, exclusive wins on a tie), and                       *)
(*   ... --inv=AgreeTie   (the comparison before fix ee8f4ce: > and < instead of         *)
(* >= and <=) is violated, with a tie as counterexample -- the deviation switch           *)
(* "TieKeepsInclusive" is necessary and sufficient.                                        *)
(* multipleOf is left to TLC (x % m on symbolic integers is outside the fragment            *)
(* Apalache handles well); it is independent of the bounds.                                  *)
(***************************************************************************)
EXTENDS Integers

VARIABLES
  \* @type: Bool;
  hasMin,
  \* @type: Bool;
  hasMax,
  \* @type: Int;
  vMin,
  \* @type: Int;
  vMax,
  \* exclusive bounds: kind "none" | "bool" | "num"
  \* @type: Str;
  kEMin,
  \* @type: Str;
  kEMax,
  \* @type: Bool;
  bEMin,
  \* @type: Bool;
  bEMax,
  \* @type: Int;
  vEMin,
  \* @type: Int;
  vEMax,
  \* @type: Int;
  x

Kinds == {"none", "bool", "num"}

Init ==
  /\ hasMin \in BOOLEAN /\ hasMax \in BOOLEAN /\ bEMin \in BOOLEAN /\ bEMax \in BOOLEAN
  /\ kEMin \in Kinds /\ kEMax \in Kinds
  /\ vMin \in Int /\ vMax \in Int /\ vEMin \in Int /\ vEMax \in Int /\ x \in Int

Next == UNCHANGED <<hasMin, hasMax, vMin, vMax, kEMin, kEMax, bEMin, bEMax, vEMin, vEMax, x>>

\* ---- reference: every stated bound holds (the boolean form applies only with its partner keyword) ----
RefAccepts ==
  /\ (hasMin => vMin <= x)
  /\ (hasMax => x <= vMax)
  /\ (kEMin = "num" => vEMin < x)
  /\ (kEMax = "num" => x < vEMax)
  /\ ((kEMin = "bool" /\ bEMin /\ hasMin) => vMin < x)
  /\ ((kEMax = "bool" /\ bEMax /\ hasMax) => x < vMax)

\* ---- implementation: NormalizeBounds, then genBoundary ----
\* lower side: (on, value, exclusive)
\* @type: (Bool) => Bool;
LoTakesExcl(strict) == kEMin = "num" /\ (~hasMin \/ (IF strict THEN vEMin > vMin ELSE vEMin >= vMin))
\* @type: (Bool) => Bool;
LoOn(strict) == IF LoTakesExcl(strict) THEN TRUE ELSE hasMin
\* @type: (Bool) => Int;
LoVal(strict) == IF LoTakesExcl(strict) THEN vEMin ELSE vMin
\* @type: (Bool) => Bool;
LoEx(strict) == IF kEMin = "bool" THEN bEMin ELSE LoTakesExcl(strict)
\* @type: (Bool) => Bool;
HiTakesExcl(strict) == kEMax = "num" /\ (~hasMax \/ (IF strict THEN vEMax < vMax ELSE vEMax <= vMax))
\* @type: (Bool) => Bool;
HiOn(strict) == IF HiTakesExcl(strict) THEN TRUE ELSE hasMax
\* @type: (Bool) => Int;
HiVal(strict) == IF HiTakesExcl(strict) THEN vEMax ELSE vMax
\* @type: (Bool) => Bool;
HiEx(strict) == IF kEMax = "bool" THEN bEMax ELSE HiTakesExcl(strict)

\* genBoundary: lower rejects when  b >= x (exclusive) / b > x ; upper when  b <= x (exclusive) / b < x
\* @type: (Bool) => Bool;
ImplAccepts(strict) ==
  /\ ~(LoOn(strict) /\ (IF LoEx(strict) THEN LoVal(strict) >= x ELSE LoVal(strict) > x))
  /\ ~(HiOn(strict) /\ (IF HiEx(strict) THEN HiVal(strict) <= x ELSE HiVal(strict) < x))

Agree    == ImplAccepts(FALSE) <=> RefAccepts       \* the tree as it is (after fix ee8f4ce)
AgreeTie == ImplAccepts(TRUE) <=> RefAccepts        \* the comparison before the fix: must FAIL
=============================================================================
