---------------------------- MODULE MC_MapOrder ----------------------------
EXTENDS MapOrder
SchemasDef == {"a", "b", "c"}
MapIdsDef  == {"a", "b", "a#"}      \* "a#" names no schema exactly: harmless with exact matching
PkgOfDef   == [m \in MapIdsDef |-> IF m = "a" THEN "pa" ELSE IF m = "b" THEN "pb" ELSE "px"]
OutOfDef   == [m \in MapIdsDef |-> IF m = "a" THEN "a.go" ELSE IF m = "b" THEN "b.go" ELSE "x.go"]
ExtsDef    == <<".yml", ".yaml", ".json">>
CandsDef   == {".json", ".yaml"}
PropsDef   == [s \in SchemasDef |-> IF s = "a" THEN {"A1", "A2"} ELSE IF s = "b" THEN {"B1"} ELSE {"C1", "C2"}]
=============================================================================
