----------------------------- MODULE IntSizeInd -----------------------------
(***************************************************************************)
(* Flat, typed copy of spec/IntSize.tla (getMinIntType, adjustForSigned /       *)
(* UnsignedBounds, in-place bound removal) on top of the bound normalisation of   *)
(* spec/BoundsInd.tla, over UNBOUNDED integers with the TRUE type limits, for      *)
(* Apalache.  TLC checks the same model on landmark numerals (MC_C15); here the      *)
(* four schema constants and the document value range over all of Int:                *)
(*   apalache-mc check --length=0 --init=Init --inv=<Inv> IntSizeInd.tla              *)
(*   Holds      the chosen type holds the admitted interval whenever a 64-bit type can  *)
(*   Narrowest  no narrower signed or unsigned type holds the admitted interval         *)
(*   SameAccept for every value an int64 holds: accepted with --min-sized-ints iff       *)
(*              accepted without it (C15's conclusion) -- the removed checks are          *)
(*              implied by the type's range                                               *)
(*   SameAcceptCrossed  with the removal flags crossed (the code before fix 1f591fd)        *)
(*              SameAccept FAILS: the deviation switch RemoveCrossedExclusive bites          *)
(* The model is the intended design: exact integer constants (the float64 rounding of       *)
(* constants >= 2^53 is finding F-C15-float64-bounds, modelled in IntSize.tla only).          *)
(***************************************************************************)
EXTENDS Integers

VARIABLES
  \* @type: Bool;
  hasMin,
  \* @type: Bool;
  hasMax,
  \* @type: Int;
  vMin,
  \* @type: Int;
  vMax,
  \* @type: Str;
  kEMin,
  \* @type: Str;
  kEMax,
  \* @type: Bool;
  bEMin,
  \* @type: Bool;
  bEMax,
  \* @type: Int;
  vEMin,
  \* @type: Int;
  vEMax,
  \* @type: Int;
  x

Kinds == {"none", "bool", "num"}
Init ==
  /\ hasMin \in BOOLEAN /\ hasMax \in BOOLEAN /\ bEMin \in BOOLEAN /\ bEMax \in BOOLEAN
  /\ kEMin \in Kinds /\ kEMax \in Kinds
  /\ vMin \in Int /\ vMax \in Int /\ vEMin \in Int /\ vEMax \in Int /\ x \in Int
Next == UNCHANGED <<hasMin, hasMax, vMin, vMax, kEMin, kEMax, bEMin, bEMax, vEMin, vEMax, x>>

\* ---- type limits ----
MinI8 == -128              MaxI8 == 127              MaxU8 == 255
MinI16 == -32768           MaxI16 == 32767           MaxU16 == 65535
MinI32 == -2147483648      MaxI32 == 2147483647      MaxU32 == 4294967295
MinI64 == -9223372036854775808   MaxI64 == 9223372036854775807   MaxU64 == 18446744073709551615

\* ---- reference: every stated bound ----
RefAccepts ==
  /\ (hasMin => vMin <= x) /\ (hasMax => x <= vMax)
  /\ (kEMin = "num" => vEMin < x) /\ (kEMax = "num" => x < vEMax)
  /\ ((kEMin = "bool" /\ bEMin /\ hasMin) => vMin < x)
  /\ ((kEMax = "bool" /\ bEMax /\ hasMax) => x < vMax)

\* ---- NormalizeBounds (as in BoundsInd, after fix ee8f4ce) ----
LoTakesExcl == kEMin = "num" /\ (~hasMin \/ vEMin >= vMin)
LoOn  == IF LoTakesExcl THEN TRUE ELSE hasMin
LoVal == IF LoTakesExcl THEN vEMin ELSE vMin
LoEx  == IF kEMin = "bool" THEN bEMin ELSE LoTakesExcl
HiTakesExcl == kEMax = "num" /\ (~hasMax \/ vEMax <= vMax)
HiOn  == IF HiTakesExcl THEN TRUE ELSE hasMax
HiVal == IF HiTakesExcl THEN vEMax ELSE vMax
HiEx  == IF kEMax = "bool" THEN bEMax ELSE HiTakesExcl

\* ---- getMinIntType: exclusive -> inclusive ----
Lo == IF LoEx THEN LoVal + 1 ELSE LoVal        \* meaningful when LoOn
Hi == IF HiEx THEN HiVal - 1 ELSE HiVal        \* meaningful when HiOn
Unsigned == LoOn /\ Lo >= 0

\* chosen type as (signed, bits)
Bits ==
  IF Unsigned THEN
       (IF ~HiOn THEN 64 ELSE IF Hi > MaxU32 THEN 64 ELSE IF Hi > MaxU16 THEN 32 ELSE IF Hi > MaxU8 THEN 16 ELSE 8)
  ELSE (IF ~LoOn \/ ~HiOn THEN 64
        ELSE IF Lo < MinI32 \/ Hi > MaxI32 THEN 64
        ELSE IF Lo < MinI16 \/ Hi > MaxI16 THEN 32
        ELSE IF Lo < MinI8 \/ Hi > MaxI8 THEN 16 ELSE 8)
\* @type: (Bool, Int) => Int;
TyMin(u, b) == IF u THEN 0 ELSE IF b = 8 THEN MinI8 ELSE IF b = 16 THEN MinI16 ELSE IF b = 32 THEN MinI32 ELSE MinI64
\* @type: (Bool, Int) => Int;
TyMax(u, b) == IF u THEN (IF b = 8 THEN MaxU8 ELSE IF b = 16 THEN MaxU16 ELSE IF b = 32 THEN MaxU32 ELSE MaxU64)
               ELSE (IF b = 8 THEN MaxI8 ELSE IF b = 16 THEN MaxI16 ELSE IF b = 32 THEN MaxI32 ELSE MaxI64)
\* removal flags: a bound that equals the limit of the chosen type
RMin == IF Unsigned THEN Lo = 0 ELSE LoOn /\ Lo = TyMin(FALSE, Bits)
RMax == HiOn /\ Hi = TyMax(Unsigned, Bits)

InType == TyMin(Unsigned, Bits) <= x /\ x <= TyMax(Unsigned, Bits)

\* ---- what the generated code accepts with the flag: the type's range, then the validator on what was not removed ----
\* removeMin clears minimum and exclusiveMinimum; removeMax clears maximum and exclusiveMaximum
\* (crossed: the code before fix 1f591fd cleared the exclusive keyword of the OTHER side)
\* @type: (Bool) => Bool;
AcceptOn(crossed) ==
  LET hasMin2 == hasMin /\ ~RMin
      hasMax2 == hasMax /\ ~RMax
      kEMin2  == IF (IF crossed THEN RMax ELSE RMin) THEN "none" ELSE kEMin
      kEMax2  == IF (IF crossed THEN RMin ELSE RMax) THEN "none" ELSE kEMax
      \* normalisation again on what is left (the validator is generated from the rewritten schema)
      loTakes == kEMin2 = "num" /\ (~hasMin2 \/ vEMin >= vMin)
      loOn    == IF loTakes THEN TRUE ELSE hasMin2
      loVal   == IF loTakes THEN vEMin ELSE vMin
      loEx    == IF kEMin2 = "bool" THEN bEMin ELSE loTakes
      hiTakes == kEMax2 = "num" /\ (~hasMax2 \/ vEMax <= vMax)
      hiOn    == IF hiTakes THEN TRUE ELSE hasMax2
      hiVal   == IF hiTakes THEN vEMax ELSE vMax
      hiEx    == IF kEMax2 = "bool" THEN bEMax ELSE hiTakes
  IN /\ InType
     /\ ~(loOn /\ (IF loEx THEN loVal >= x ELSE loVal > x))
     /\ ~(hiOn /\ (IF hiEx THEN hiVal <= x ELSE hiVal < x))

InInt64 == MinI64 <= x /\ x <= MaxI64
NonEmpty == (LoOn /\ HiOn) => Lo <= Hi

\* ---- properties ----
\* @type: (Bool, Int) => Bool;
Fits(u, b) == TyMin(u, b) <= Lo /\ Hi <= TyMax(u, b)
\* the chosen type holds the whole admitted interval whenever some 64-bit type can; a one-sided interval gets the
\* 64-bit type of its signedness
Holds == /\ (LoOn /\ HiOn /\ Lo <= Hi /\ (Fits(TRUE, 64) \/ Fits(FALSE, 64))) => Fits(Unsigned, Bits)
         /\ (~HiOn \/ ~LoOn) => Bits = 64
         /\ (RefAccepts /\ LoOn /\ HiOn /\ (Fits(TRUE, 64) \/ Fits(FALSE, 64))) => InType
\* a narrower type of either signedness would miss an end of the admitted (non-empty, two-sided) interval
Narrowest == (LoOn /\ HiOn /\ Lo <= Hi /\ MinI64 <= Lo /\ Hi <= MaxU64) =>
               \A b \in {8, 16, 32} : b < Bits => (~Fits(TRUE, b) /\ ~Fits(FALSE, b))
SameAccept        == InInt64 => (AcceptOn(FALSE) <=> RefAccepts)
SameAcceptCrossed == InInt64 => (AcceptOn(TRUE) <=> RefAccepts)
=============================================================================
