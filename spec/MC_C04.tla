------------------------------ MODULE MC_C04 ------------------------------
(***************************************************************************)
(* C04 -- a document missing a required property is rejected, at every depth.*)
(* Inner object O: properties a (integer), b ([string,null]), c (integer with *)
(* default), n (nested object with its own required key p); `required` is any *)
(* subset of {a, b, c, n, zz} (zz is not declared).  O is placed in every      *)
(* container context the property lists.  Documents: every assignment of       *)
(* {absent, present, null} to the keys.                                        *)
(***************************************************************************)
EXTENDS ObjImpl, Json, SequencesExt

CONSTANTS UnitsFile, Devs

VARIABLES ctx, req          \* req: subset of names as a sequence, or <<"?">> while unset
vars == <<ctx, req>>

Names == <<"a", "b", "c", "n", "zz">>
Contexts == {"root", "prop", "item", "def", "defitem", "allOfReqOnly", "allOfSplit", "allOfRef", "anyOf",
             "mapprop", "mappropitem", "allOfNested", "addltyped", "addltrue", "addltrueitem", "allOfRefCross", "untyped", "untypeddef"}
\* "untyped" / "untypeddef": the object schema (inline / as a definition) states NO type: its properties and its
\* required list still apply to values that are objects
\* "allOfRefCross": the $ref branch lists in ITS `required` names that only the other branch declares
\* "addltyped" / "addltrue" / "addltrueitem": the object also collects additional properties (typed values, `true`,
\* and `true` in a definition used as array items): the required check must stay next to the AdditionalProperties field
\* the contexts with their own property set: `required` ranges over the subsets of three names there
SmallCtx == {"mapprop", "mappropitem", "allOfNested"}

Int_ == [type |-> <<"integer">>]
PropsO == << [k |-> "a", s |-> Int_],
             [k |-> "b", s |-> [type |-> <<"string", "null">>]],
             [k |-> "c", s |-> ("type" :> <<"integer">>) @@ ("default" :> JNum(4))],
             [k |-> "n", s |-> ("type" :> <<"object">>) @@ ("properties" :> <<[k |-> "p", s |-> Int_]>>)
                               @@ ("required" :> <<"p">>)] >>

Obj(props, r) == ("type" :> <<"object">>) @@ ("properties" :> props)
                 @@ (IF r = <<>> THEN <<>> ELSE "required" :> r)
O(r) == Obj(PropsO, r)
OA(r, addl) == O(r) @@ ("additionalProperties" :> addl)
ATyped == [k |-> "s", s |-> [type |-> <<"string">>]]
ATrue  == [k |-> "b", b |-> TRUE]

\* inner documents: a, b in {absent, 4, null}; c in {absent, 8}; n in {absent, {}, {p:4}}; zz in {absent, 4}
Choice == [a : {"abs", "val", "null"}, b : {"abs", "val", "null"}, c : {"abs", "val"},
           n : {"abs", "empty", "full"}, zz : {"abs", "val"}]
InnerDoc(ch) ==
  JObj( (IF ch.a = "abs" THEN <<>> ELSE <<KV("a", IF ch.a = "val" THEN JNum(4) ELSE JNull)>>)
     \o (IF ch.b = "abs" THEN <<>> ELSE <<KV("b", IF ch.b = "val" THEN JStr(<<"a">>) ELSE JNull)>>)
     \o (IF ch.c = "abs" THEN <<>> ELSE <<KV("c", JNum(8))>>)
     \o (IF ch.n = "abs" THEN <<>> ELSE <<KV("n", IF ch.n = "empty" THEN JObj(<<>>) ELSE JObj(<<KV("p", JNum(4))>>))>>)
     \o (IF ch.zz = "abs" THEN <<>> ELSE <<KV("zz", JNum(4))>>) )
InnerDocs == SetToSeq({InnerDoc(ch) : ch \in Choice})

Sub(r, names) == SelectSeq(r, LAMBDA k : k \in names)
In(r, k) == \E i \in DOMAIN r : r[i] = k

\* mapprop: required properties whose type is a typed map (no default): a (integer), m (map of strings), ma (map of
\* arrays of strings); required = the subset of {a, m, ma} chosen by the names a, b, c of req
Str_ == [type |-> <<"string">>]
MapOf(v) == [type |-> <<"object">>, additionalProperties |-> [k |-> "s", s |-> v]]
OM(r) == Obj(<<[k |-> "a", s |-> Int_], [k |-> "m", s |-> MapOf(Str_)], [k |-> "ma", s |-> MapOf([type |-> <<"array">>, items |-> Str_])]>>,
             (IF In(r, "a") THEN <<"a">> ELSE <<>>) \o (IF In(r, "b") THEN <<"m">> ELSE <<>>) \o (IF In(r, "c") THEN <<"ma">> ELSE <<>>))
MapDocs == SetToSeq({JObj( (IF a THEN <<KV("a", JNum(4))>> ELSE <<>>)
                           \o (IF m = "abs" THEN <<>> ELSE <<KV("m", IF m = "empty" THEN JObj(<<>>) ELSE JObj(<<KV("k", JStr(<<"a">>))>>))>>)
                           \o (IF ma = "abs" THEN <<>> ELSE <<KV("ma", IF ma = "empty" THEN JObj(<<>>) ELSE JObj(<<KV("k", JArr(<<JStr(<<"a">>)>>))>>))>>) )
                     : a \in BOOLEAN, m \in {"abs", "empty", "full"}, ma \in {"abs", "empty", "full"}})
\* allOfNested: two inline branches that both declare the nested object n, each with keys and `required` of its own
\* (k by the first, j by the second); n itself required by the second branch
NestedAllOf(r) ==
  [allOf |-> <<Obj(<<[k |-> "n", s |-> Obj(<<[k |-> "k", s |-> Int_]>>, IF In(r, "a") THEN <<"k">> ELSE <<>>)]>>, <<>>),
               Obj(<<[k |-> "n", s |-> Obj(<<[k |-> "j", s |-> Str_]>>, IF In(r, "b") THEN <<"j">> ELSE <<>>)]>>,
                   IF In(r, "n") THEN <<"n">> ELSE <<>>)>>]
NestedDocs == << JObj(<<>>), JObj(<<KV("n", JObj(<<>>))>>), JObj(<<KV("n", JObj(<<KV("k", JNum(4))>>))>>),
                 JObj(<<KV("n", JObj(<<KV("j", JStr(<<"a">>))>>))>>), JObj(<<KV("n", JObj(<<KV("j", JStr(<<"a">>)), KV("k", JNum(4))>>))>>) >>
Z == ("type" :> <<"object">>) @@ ("properties" :> <<[k |-> "q", s |-> [type |-> <<"boolean">>]]>>) @@ ("required" :> <<"q">>)

Wrap(x) == JObj(<<KV("x", x)>>)

Unit(c, r) ==
  LET docsX(f(_)) == [i \in DOMAIN InnerDocs |-> f(InnerDocs[i])]
      xprop(s) == ("type" :> <<"object">>) @@ ("properties" :> <<[k |-> "x", s |-> s]>>) @@ ("required" :> <<"x">>)
      RefN == [ref |-> [k |-> "defs", n |-> "N"]]
  IN
  CASE c = "root" -> [prop |-> "C04", ctx |-> c, schema |-> O(r), defs |-> <<>>, docs |-> InnerDocs]
    [] c = "prop" -> [prop |-> "C04", ctx |-> c, schema |-> xprop(O(r)), defs |-> <<>>, docs |-> docsX(Wrap)]
    [] c = "item" -> [prop |-> "C04", ctx |-> c,
                      schema |-> xprop(("type" :> <<"array">>) @@ ("items" :> O(r))), defs |-> <<>>,
                      docs |-> docsX(LAMBDA o : Wrap(JArr(<<InnerDocs[1], o>>)))]
    [] c = "def"  -> [prop |-> "C04", ctx |-> c, schema |-> xprop(RefN), defs |-> <<[k |-> "N", s |-> O(r)]>>,
                      docs |-> docsX(Wrap)]
    [] c = "defitem" -> [prop |-> "C04", ctx |-> c, schema |-> xprop(RefN),
                      defs |-> <<[k |-> "N", s |-> ("type" :> <<"array">>) @@ ("items" :> O(r))]>>,
                      docs |-> docsX(LAMBDA o : Wrap(JArr(<<o>>)))]
    [] c = "allOfReqOnly" -> [prop |-> "C04", ctx |-> c,
                      schema |-> xprop([allOf |-> <<Obj(PropsO, <<>>), [required |-> r]>>]), defs |-> <<>>,
                      docs |-> docsX(Wrap)]
    [] c = "allOfSplit" -> [prop |-> "C04", ctx |-> c,
                      schema |-> xprop([allOf |-> <<Obj(SubSeq(PropsO, 1, 2), Sub(r, {"a", "b"})),
                                                    Obj(SubSeq(PropsO, 3, 4), Sub(r, {"c", "n", "zz"}))>>]),
                      defs |-> <<>>, docs |-> docsX(Wrap)]
    [] c = "allOfRef" -> [prop |-> "C04", ctx |-> c,
                      schema |-> xprop([allOf |-> <<RefN, Obj(SubSeq(PropsO, 3, 4), Sub(r, {"c", "n", "zz"}))>>]),
                      defs |-> <<[k |-> "N", s |-> Obj(SubSeq(PropsO, 1, 2), Sub(r, {"a", "b"}))]>>,
                      docs |-> docsX(Wrap)]
    [] c = "addltyped" -> [prop |-> "C04", ctx |-> c, schema |-> xprop(OA(r, ATyped)), defs |-> <<>>,
                      docs |-> docsX(Wrap) \o docsX(LAMBDA o : Wrap(JObj(o.o \o <<KV("extra", JStr(<<"a">>))>>)))]
    [] c = "addltrue" -> [prop |-> "C04", ctx |-> c, schema |-> xprop(OA(r, ATrue)), defs |-> <<>>,
                      docs |-> docsX(Wrap) \o docsX(LAMBDA o : Wrap(JObj(o.o \o <<KV("extra", JStr(<<"a">>))>>)))]
    [] c = "addltrueitem" -> [prop |-> "C04", ctx |-> c, schema |-> xprop(("type" :> <<"array">>) @@ ("items" :> RefN)),
                      defs |-> <<[k |-> "N", s |-> OA(r, ATrue)]>>,
                      docs |-> docsX(LAMBDA o : Wrap(JArr(<<o>>)))]
    [] c = "allOfRefCross" -> [prop |-> "C04", ctx |-> c,
                      schema |-> xprop([allOf |-> <<RefN, Obj(SubSeq(PropsO, 3, 4), <<>>)>>]),
                      defs |-> <<[k |-> "N", s |-> Obj(SubSeq(PropsO, 1, 2), r)]>>,
                      docs |-> docsX(Wrap)]
    [] c = "untyped" -> [prop |-> "C04", ctx |-> c, schema |-> xprop([f \in DOMAIN O(r) \ {"type"} |-> O(r)[f]]), defs |-> <<>>, docs |-> docsX(Wrap)]
    [] c = "untypeddef" -> [prop |-> "C04", ctx |-> c, schema |-> xprop(RefN), defs |-> <<[k |-> "N", s |-> [f \in DOMAIN O(r) \ {"type"} |-> O(r)[f]]]>>,
                      docs |-> docsX(Wrap)]
    [] c = "mapprop" -> [prop |-> "C04", ctx |-> c, schema |-> OM(r), defs |-> <<>>, docs |-> MapDocs]
    [] c = "mappropitem" -> [prop |-> "C04", ctx |-> c, schema |-> xprop(("type" :> <<"array">>) @@ ("items" :> OM(r))), defs |-> <<>>,
                      docs |-> [i \in DOMAIN MapDocs |-> Wrap(JArr(<<MapDocs[i]>>))]]
    [] c = "allOfNested" -> [prop |-> "C04", ctx |-> c, schema |-> xprop(NestedAllOf(r)), defs |-> <<>>,
                      docs |-> [i \in DOMAIN NestedDocs |-> Wrap(NestedDocs[i])]]
    [] c = "anyOf" -> [prop |-> "C04", ctx |-> c,
                      schema |-> xprop([anyOf |-> <<O(r), Z>>]), defs |-> <<>>,
                      \* with the other branch satisfied (q present); documents whose nested n is invalid are left
                      \* to C11 (the merged struct's typed decode runs n's own unmarshaler)
                      docs |-> docsX(Wrap) \o
                               LET good == SelectSeq(InnerDocs, LAMBDA o : ~ObjHas(o, "n") \/ ObjHas(ObjVal(o, "n"), "p"))
                               IN [i \in DOMAIN good |-> Wrap(JObj(good[i].o \o <<KV("q", JBool(TRUE))>>))]]

u == Unit(ctx, req)
Set == req # <<"?">>

RECURSIVE SubLists(_)
SubLists(s) == IF s = <<>> THEN {<<>>}
              ELSE LET r == SubLists(Tail(s)) IN r \cup {<<Head(s)>> \o t : t \in r}

\* the generated code, per context
ImplAccepts(unit, d, D) ==
  LET env == unit.defs
      x == IF unit.ctx \in {"root", "mapprop"} THEN d ELSE ObjVal(d, "x")
      r == req
  IN
  CASE unit.ctx \in {"root", "prop", "def"} -> ImplStruct(env, O(r), x, D)
    [] unit.ctx = "item" -> \A i \in DOMAIN x.a : ImplStruct(env, O(r), x.a[i], D)
    [] unit.ctx = "defitem" ->
         IF "DeclaredArrayElemUnvalidated" \in D
         THEN \A i \in DOMAIN x.a : TypedOnly(env, O(r), x.a[i], D)
         ELSE \A i \in DOMAIN x.a : ImplStruct(env, O(r), x.a[i], D)
    [] unit.ctx \in {"allOfReqOnly", "allOfSplit", "allOfRef", "allOfRefCross"} ->
         ImplAllOf(env, unit.schema.properties[1].s.allOf, x, D)
    [] unit.ctx = "anyOf" -> ImplAnyOf(env, unit.schema.properties[1].s.anyOf, x, D)
    [] unit.ctx = "addltyped" -> ImplStruct(env, OA(r, ATyped), x, D)
                                 /\ \A k \in ObjKeys(x) \ PropNames(O(r)) : ObjVal(x, k).t \in {"str", "null"}   \* mapstructure into map[string]string
    [] unit.ctx = "addltrue" -> ImplStruct(env, OA(r, ATrue), x, D)
    [] unit.ctx = "addltrueitem" -> \A i \in DOMAIN x.a : ImplStruct(env, OA(r, ATrue), x.a[i], D)
    [] unit.ctx \in {"untyped", "untypeddef"} -> "UntypedPropertiesUnvalidated" \in D \/ ImplStruct(env, O(r), x, D)   \* interface{} field
    [] unit.ctx = "mapprop" -> ImplStruct(env, OM(r), x, D)
    [] unit.ctx = "mappropitem" -> \A i \in DOMAIN x.a : ImplStruct(env, OM(r), x.a[i], D)
    [] unit.ctx = "allOfNested" -> ImplAllOf(env, unit.schema.properties[1].s.allOf, x, D)

RefVerdict(unit, d)    == Valid(unit.defs, unit.schema, d, {}, "decl", NoLim)
DevVerdict(unit, d, D) == Valid(unit.defs, unit.schema, d, D, "decl", NoLim)

Agree(unit, D) ==
  \A i \in DOMAIN unit.docs :
     LET r == DevVerdict(unit, unit.docs[i], D) IN
     r # Un => (ImplAccepts(unit, unit.docs[i], D) <=> r = Acc)

DesignOK == Set => LET unit == u IN Agree(unit, {})
AsIsOK   == Set => LET unit == u IN Agree(unit, Devs)

Init == ctx \in Contexts /\ req = <<"?">>
Pick == req = <<"?">> /\ req' \in (IF ctx = "allOfNested" THEN SubLists(<<"a", "b", "n">>)
                               ELSE IF ctx \in SmallCtx THEN SubLists(<<"a", "b", "c">>) ELSE SubLists(Names)) /\ UNCHANGED ctx
Next == Pick
Spec == Init /\ [][Next]_vars

Emit == Set => (UnitsFile = "" \/ LET unit == u IN PrintT("UNIT " \o ToJson(unit)))
=============================================================================
