------------------------------ MODULE MC_C15 ------------------------------
(***************************************************************************)
(* C15 -- --min-sized-ints never changes which documents are accepted.        *)
(* Units: integer schemas whose lower and upper side are each absent,         *)
(* `minimum v`, numeric `exclusiveMinimum v`, or `minimum v` with the boolean  *)
(* form, v = landmark + offset around the 8/16 (quick) and 32/64 bit           *)
(* (thorough) signed and unsigned limits and 0; each generated with the flag   *)
(* off and on.  Documents: every landmark + offset in -2..1 within int64.      *)
(***************************************************************************)
EXTENDS IntSize, Units, Json, SequencesExt

CONSTANTS UnitsFile, Devs, Tier

VARIABLES lowForm, upForm, flag, vs, fmt     \* vs = <<low value, up value>> or <<>>; fmt: an OpenAPI-style `format` annotation
vars == <<lowForm, upForm, flag, vs, fmt>>

QuickLM == {Big(-1, 15, 0), Big(-1, 7, 0), Zero, Big(1, 7, 0), Big(1, 8, 0), Big(1, 15, 0), Big(1, 16, 0)}
MoreLM  == {Big(-1, 63, 0), Big(-1, 31, 0), Big(1, 31, 0), Big(1, 32, 0), Big(1, 63, 0), Big(1, 64, 0)}
LM == IF Tier = "quick" THEN QuickLM ELSE QuickLM \cup MoreLM
\* bounds strictly INSIDE a type's range (118, -118, 32758, -32758): one side on a type limit, the other inside, is the
\* case in which exactly one check may be dropped
Interior == {Big(1, 7, -10), Big(-1, 7, 10), Big(1, 15, -10), Big(-1, 15, 10)}
BoundVals == {Plus(l, o) : l \in LM, o \in {-1, 0, 1}} \cup Interior
\* the inclusive value of a side that is stated twice stays around the 8/16-bit limits (its partner sits there) in both tiers
QuickBoundVals == {Plus(l, o) : l \in QuickLM, o \in {-1, 0, 1}}
DocVals == {Plus(l, o) : l \in LM \ {Big(1, 63, 0), Big(1, 64, 0)}, o \in {-2, -1, 0, 1}} \cup {Plus(x, o) : x \in Interior, o \in {-1, 0, 1}}
           \cup (IF Tier = "quick" THEN {} ELSE {Big(1, 63, -1), Big(1, 63, -2), Big(-1, 63, 0), Big(-1, 63, 1)})
InInt64(x) == NumLE(MinInt(64), x) /\ NumLE(x, MaxInt(64))

Forms == {"none", "incl", "exnum", "exbool"}
\* one side stated TWICE: inclusive bound v and a numeric exclusive bound at a fixed partner value just outside an
\* 8-bit (A, B) or 16-bit (C) type: whichever is tighter decides, and a bound may be dropped only if the type implies it
TwiceForms == {"inclexA", "inclexB", "inclexC"}
Partner(form, lower) ==
  CASE form = "inclexA" -> IF lower THEN Big(-1, 7, -1) ELSE Big(1, 8, 0)
    [] form = "inclexB" -> IF lower THEN Plus(Zero, -1) ELSE Big(1, 7, 0)
    [] form = "inclexC" -> IF lower THEN Big(-1, 15, -1) ELSE Big(1, 16, 0)
SmallVals == {Zero, Big(-1, 7, 0), Big(1, 8, -1)}
FmtLows == {Big(-1, 7, 0), Zero, Big(-1, 15, 0)}
FmtUps  == {Big(1, 7, -1), Big(1, 8, -1), Big(1, 15, -1)}
\* fmt = "shared": the integer is the property n of a definition N and the unit's x is {allOf: [{$ref N}, {m: string}]}:
\* the generator visits the node n twice (once for N, once for the merged struct)
SharedUps == FmtUps \cup {Big(1, 7, 0), Big(1, 8, 0)}
SharedUnit(leaf, fl, vals) ==
  [prop |-> "C15", pos |-> "allofshared",
   schema |-> ("type" :> <<"object">>)
              @@ ("properties" :> <<[k |-> "x", s |-> [allOf |-> <<[ref |-> [k |-> "defs", n |-> "N"]],
                                                                  ("type" :> <<"object">>) @@ ("properties" :> <<[k |-> "m", s |-> [type |-> <<"string">>]]>>)>>]]>>)
              @@ ("required" :> <<"x">>),
   defs |-> <<[k |-> "N", s |-> ("type" :> <<"object">>) @@ ("properties" :> <<[k |-> "n", s |-> leaf]>>)]>>,
   docs |-> [i \in DOMAIN vals |-> JObj(<<KV("x", JObj(<<KV("n", vals[i])>>))>>)] \o <<JObj(<<KV("x", JObj(<<>>))>>), JObj(<<>>)>>,
   opts |-> [minSizedInts |-> fl], nobuild |-> <<>>]

Side(form, v, lower) ==
  LET inc == IF lower THEN "minimum" ELSE "maximum"
      exc == IF lower THEN "exclusiveMinimum" ELSE "exclusiveMaximum"
  IN CASE form = "none"   -> <<>>
       [] form = "incl"   -> inc :> v
       [] form = "exnum"  -> exc :> [k |-> "n", h |-> v]
       [] form = "exbool" -> (inc :> v) @@ (exc :> [k |-> "b", b |-> TRUE])
       [] form \in TwiceForms -> (inc :> v) @@ (exc :> [k |-> "n", h |-> Partner(form, lower)])

Unit(lf, uf, fl, lv, uv) ==
  LET leaf == ("type" :> <<"integer">>) @@ Side(lf, lv, TRUE) @@ Side(uf, uv, FALSE)
              @@ (IF fmt \in {"none", "shared"} THEN <<>> ELSE "format" :> fmt)
      docs == SetToSeq({x \in DocVals : InInt64(x)})
      ty == MinIntType(PMin(leaf), PMax(leaf), PEx(leaf, "exclusiveMinimum"), PEx(leaf, "exclusiveMaximum"), {})
      \* a bound that is not removed is emitted as a constant compared with a field of the chosen type
      lowerLeft == lf # "none" /\ ~ty.rmin /\ ~InRange(ty.ty, lv)
      upperLeft == uf # "none" /\ ~ty.rmax /\ ~InRange(ty.ty, uv)
      \* as it is: type and removal are decided on float64-rounded constants, and the constant that is emitted is
      \* int64(float64(v)) (JV.GoBound: -2^63 for constants near +2^63 and 2^64), which no unsigned type holds
      tyD == MinIntType(PMin(leaf), PMax(leaf), PEx(leaf, "exclusiveMinimum"), PEx(leaf, "exclusiveMaximum"), Devs)
      lowerLeftD == lf # "none" /\ ~tyD.rmin /\ ~InRange(tyD.ty, GoBound(lv, Devs))
      upperLeftD == uf # "none" /\ ~tyD.rmax /\ ~InRange(tyD.ty, GoBound(uv, Devs))
  IN IF fmt = "shared" THEN SharedUnit(leaf, fl, docs) ELSE
     PosUnit("C15", "req", leaf, docs, JNull) @@ [opts |-> [minSizedInts |-> fl]]
     @@ [nobuild |-> (IF fl /\ (lowerLeft \/ upperLeft) THEN <<"SizedBoundConstantOverflows">> ELSE <<>>)
                     \o (IF fl /\ (lowerLeftD \/ upperLeftD) /\ ~(lowerLeft \/ upperLeft) THEN <<"Float64Bounds">> ELSE <<>>)]

u == Unit(lowForm, upForm, flag, vs[1], vs[2])
Set == vs # <<>>

Shared(unit) == unit.pos = "allofshared"
SharedLeaf(unit) == unit.defs[1].s.properties[1].s
ImplAccepts(unit, d, D) ==
  IF Shared(unit) THEN ImplSharedPos(d, SharedLeaf(unit), unit.opts.minSizedInts, D)
  ELSE ImplPos(unit, d, LAMBDA v : ImplSizedAccepts(Leaf(unit), v, unit.opts.minSizedInts, D))

Agree(unit, D) ==
  \A i \in DOMAIN unit.docs :
     LET r == DevVerdict(unit, unit.docs[i], D) IN
     r # Un => (ImplAccepts(unit, unit.docs[i], D) <=> r = Acc)

\* the chosen type can represent every admitted integer and is the narrowest signed or unsigned that can
Admitted(s, x) == NumOK(s, x, {})
TypeOK(unit, D) ==
  Shared(unit) \/
  LET s == Leaf(unit)
      r == MinIntType(PMin(s), PMax(s), PEx(s, "exclusiveMinimum"), PEx(s, "exclusiveMaximum"), D)
  IN \A i \in DOMAIN unit.docs :
       LET x == ObjVal(unit.docs[i], "x") IN
       (ObjHas(unit.docs[i], "x") /\ x.t = "big" /\ Admitted(s, x)) => InRange(r.ty, x)

DesignOK == Set => LET unit == u IN Agree(unit, {}) /\ TypeOK(unit, {})
\* the two placements of the open deviations agree where both exist: the reference-level switches of JV.Valid know
\* nothing of --min-sized-ints, so with the flag on the as-is prediction IS the implementation-shaped model (the
\* trace specification uses it directly, Trace_RT.ImplV)
AsIsOK   == Set => LET unit == u IN (unit.opts.minSizedInts \/ Agree(unit, Devs))

Init == /\ lowForm \in Forms \cup TwiceForms /\ upForm \in Forms \cup TwiceForms /\ flag \in BOOLEAN /\ vs = <<>>
        /\ fmt \in {"none", "int32", "int64", "shared"}
        /\ (lowForm \in TwiceForms => upForm \in {"none", "incl"}) /\ (upForm \in TwiceForms => lowForm \in {"none", "incl"})
        /\ (fmt # "none" => lowForm = "incl" /\ upForm = "incl")
Twice == lowForm \in TwiceForms \/ upForm \in TwiceForms
Pick == /\ vs = <<>>
        /\ vs' \in (IF lowForm = "none" THEN {Zero} ELSE IF fmt # "none" THEN FmtLows
                     ELSE IF Twice /\ lowForm \notin TwiceForms THEN SmallVals
                     ELSE IF lowForm \in TwiceForms THEN QuickBoundVals ELSE BoundVals)
                 \X (IF upForm = "none" THEN {Zero} ELSE IF fmt = "shared" THEN SharedUps ELSE IF fmt # "none" THEN FmtUps
                     ELSE IF Twice /\ upForm \notin TwiceForms THEN SmallVals
                     ELSE IF upForm \in TwiceForms THEN QuickBoundVals ELSE BoundVals)
        /\ (fmt = "shared" => vs' \in FmtLows \X SharedUps)
        /\ UNCHANGED <<lowForm, upForm, flag, fmt>>
Next == Pick
Spec == Init /\ [][Next]_vars

Emit == Set => (UnitsFile = "" \/ LET unit == u IN PrintT("UNIT " \o ToJson(unit)))
=============================================================================
