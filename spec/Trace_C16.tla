----------------------------- MODULE Trace_C16 -----------------------------
(***************************************************************************)
(* Trace specification for C16: one event per (schema, pair of option sets      *)
(* differing in one option):                                                     *)
(*   [opt, a |-> projection of the run WITHOUT the option, b |-> WITH it]          *)
(* projection = [ok, builds, types, alpha, notags, json : keys; nofuncs, novars,     *)
(* yamlfree : BOOLEAN].  TLC applies the table of spec/Options.tla.                   *)
(***************************************************************************)
EXTENDS Options, Integers, Json
CONSTANTS ObsFile, Devs
VARIABLES l, tally
vars == <<l, tally>>
Obs == ndJsonDeserialize(ObsFile)

Failures(e) ==
  IF ~e.a.ok /\ ~e.b.ok THEN {}                        \* the schema is refused either way
  ELSE IF e.a.ok # e.b.ok THEN {"one side fails to generate"}
  ELSE {c \in MustEqual(e.opt) : e.a[c] # e.b[c]}
       \cup {c \in With(e.opt) : ~e.b[c]} \cup {c \in Without(e.opt) : ~e.a[c]}
       \* both sides must compile -- unless the schema's program does not even compile without any option
       \* (a C01 defect of its own, judged by C01): then the pair says nothing about the option
       \cup (IF e.basebuilds /\ (e.a.builds # e.b.builds) THEN {"builds"} ELSE {})
Classify(e) == IF Failures(e) = {} THEN "ok" ELSE "violation"
Report(n, e, c) ==
  PrintT("REPORT " \o ToJson([l |-> n, i |-> 1, class |-> c, kind |-> "option-pair", devs |-> <<>>,
                             ref |-> e.opt, obs |-> ToJson(Failures(e)), impl |-> "-"]))
Step(n, e, t) ==
  LET c == Classify(e) IN
  IF c = "ok" \/ Report(n, e, c)
  THEN [ok |-> t.ok + (IF c = "ok" THEN 1 ELSE 0), un |-> 0, known |-> 0, viol |-> t.viol + (IF c = "violation" THEN 1 ELSE 0),
        drift |-> 0, acc |-> t.acc + 1, rej |-> t.rej + (IF e.a.ok /\ e.b.ok THEN 1 ELSE 0)]
  ELSE t
Init == l = 0 /\ tally = [ok |-> 0, un |-> 0, known |-> 0, viol |-> 0, drift |-> 0, acc |-> 0, rej |-> 0]
Next == l < Len(Obs) /\ l' = l + 1 /\ tally' = Step(l + 1, Obs[l + 1], tally)
Spec == Init /\ [][Next]_vars
Done == l = Len(Obs) => PrintT("TALLY " \o ToJson(tally))
Accepted == TLCGet("stats").diameter = Len(Obs) + 1
=============================================================================
