#!/bin/sh
# Builds the verification framework from files on disk only (offline).
set -e
cd "$(dirname "$0")"
export GOFLAGS=-mod=mod GOPROXY=off GOSUMDB=off GOTOOLCHAIN=local GOWORK=off
mkdir -p bin evidence replay
sort -u /repo/go.sum /repo/tests/go.sum > harness/go.sum
(cd harness && go build -o ../bin/vcheck ./cmd/vcheck)
# base Go build cache for the checks' private caches (see harness/internal/work seedCache); rebuilt when missing
# or when the repository's dependencies changed
stamp="$(cat /repo/go.sum /repo/tests/go.sum 2>/dev/null | sha256sum | cut -c1-16)-$(go version | tr ' ' _)"
if [ ! -d bin/gocache-base ] || [ "$(cat bin/gocache-base.stamp 2>/dev/null)" != "$stamp" ]; then
  if VERIF_HOME="$PWD" ./bin/vcheck warm "$PWD/bin/gocache-base"; then echo "$stamp" > bin/gocache-base.stamp; else echo "warning: no base build cache (checks still work, each compiles its dependencies itself)"; rm -rf bin/gocache-base; fi
fi
echo "setup ok"
