#!/bin/sh
# Builds the verification framework from files on disk only (offline).
set -e
cd "$(dirname "$0")"
export GOFLAGS=-mod=mod GOPROXY=off GOSUMDB=off GOTOOLCHAIN=local GOWORK=off
mkdir -p bin evidence replay
sort -u /repo/go.sum /repo/tests/go.sum > harness/go.sum
(cd harness && go build -o ../bin/vcheck ./cmd/vcheck)
echo "setup ok"
